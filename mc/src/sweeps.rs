//! Sweeps over configuration parameters that no closure can reach: capacities up to 2^20 (C06/C01)
//! and the (size, ratio) plane of the 2Q constructors (C08). Each point is one deterministic script
//! on the real cache; the sweep enumerates a stated grid completely.
use crate::check::{EngineReport, Extra};
use crate::hashers::{HKind, HB};
use crate::oracle::Finding;
use crate::plan::Tier;
use caches::{AdaptiveCache, Cache, DefaultEvictCallback, OnEvictCallback, PutResult, RawLRU, SegmentedCache, TwoQueueCache, TwoQueueCacheBuilder};
use rayon::prelude::*;
use serde_json::json;
use std::hash::BuildHasher;
use std::panic::{catch_unwind, AssertUnwindSafe};

#[derive(Clone, Copy, Default)]
struct NopCb;
impl OnEvictCallback for NopCb {
    fn on_evict<K, V>(&self, _: &K, _: &V) {}
}

fn caps(tier: Tier) -> Vec<usize> {
    let top = if tier == Tier::Thorough { 21 } else { 20 };
    let mut v = vec![1usize, 2, 3, 5, 6, 7, 100, 1000, 10_000, 65_535, 65_536, 65_537, 70_000, 100_000];
    for k in 2..=top {
        let p = 1usize << k;
        v.extend([p - 1, p, p + 1]);
    }
    v.sort_unstable();
    v.dedup();
    v
}

/// fill a plain LRU of capacity `n` with n distinct keys, then one more
fn raw_script<E: OnEvictCallback, S: BuildHasher>(name: &str, n: usize, made: Result<RawLRU<u64, u64, E, S>, caches::lru::CacheError>) -> Vec<Finding> {
    let mut f = vec![];
    let mut c = match made {
        Ok(c) => c,
        Err(e) => {
            f.push(Finding::new("C06", "large_capacity_accepted", name.to_string(), format!("{}({}) was rejected: {:?}", name, n, e)));
            return f;
        }
    };
    if c.cap() != n {
        let d = format!("{}({}) reports cap() == {}", name, n, c.cap());
        f.push(Finding::new("C06", "capacity_is_the_requested_one", name.to_string(), d.clone()));
        f.push(Finding::new("C01", "cap_reported", format!("Raw/{}", name), d));
    }
    for k in 0..n as u64 {
        let r = c.put(k, k);
        if r != PutResult::Put || c.len() != k as usize + 1 {
            f.push(Finding::new(
                "C06",
                "evicts_only_on_overflow",
                name.to_string(),
                format!("{}({}): put of distinct key #{} returned {:?} and left len() == {} although the cache was not full", name, n, k, r, c.len()),
            ));
            return f;
        }
    }
    let r = c.put(n as u64, 0);
    if r != (PutResult::Evicted { key: 0, value: 0 }) || c.len() != n || c.peek_lru().map(|(k, _)| *k) != Some(if n == 1 { n as u64 } else { 1 }) {
        f.push(Finding::new(
            "C06",
            "overflow_evicts_the_lru",
            name.to_string(),
            format!("{}({}): after {} distinct keys, one more put returned {:?}, len() == {}, peek_lru == {:?}", name, n, n, r, c.len(), c.peek_lru()),
        ));
    }
    if c.len() > c.cap() {
        f.push(Finding::new("C01", "resident_le_cap", format!("Raw/{}", name), format!("{}({}): len() == {} > cap() == {}", name, n, c.len(), c.cap())));
    }
    f
}

/// fill a composite cache with distinct keys, then touch every resident key once (every one is promoted),
/// then add a few more keys: below capacity nothing may leave, above it len() stays at cap()
fn composite_script<C: Cache<u64, u64>>(name: &str, policy: &'static str, n: usize, free: usize, promotable: usize, made: Result<C, String>) -> Vec<Finding> {
    let mut f = vec![];
    let mut c = match made {
        Ok(c) => c,
        Err(_) => return f, // acceptance of arguments is C05's business
    };
    if c.cap() != n {
        f.push(Finding::new("C01", "cap_reported", name.to_string(), format!("{} of size {} reports cap() == {}", name, n, c.cap())));
    }
    for k in 0..free as u64 {
        let r = c.put(k, k);
        if r != PutResult::Put || c.len() != k as usize + 1 {
            let d = format!("{} of size {}: put of distinct key #{} returned {:?}, len() == {}", name, n, k, r, c.len());
            f.push(Finding::new("C01", "len_counts_resident", name.to_string(), d.clone()));
            f.push(Finding::new(policy, "nothing_leaves_below_capacity", name.to_string(), d));
            return f;
        }
    }
    // second access of each resident key (as many as the policy can promote without overflowing a segment)
    for k in 0..promotable.min(free) as u64 {
        let got = c.get(&k).copied();
        let len_now = c.len();
        if got != Some(k) || len_now != free {
            f.push(Finding::new(
                policy,
                "nothing_leaves_below_capacity",
                name.to_string(),
                format!("{} of size {} holding {} distinct keys: get of key #{} returned {:?} and left len() == {} - a promotion made an entry disappear although the cache was not over capacity", name, n, free, k, got, len_now),
            ));
            return f;
        }
    }
    for k in 0..3u64 {
        c.put(n as u64 + 10 + k, 0);
        if c.len() > c.cap() {
            f.push(Finding::new("C01", "resident_le_cap", name.to_string(), format!("{} of size {}: len() == {} > cap() == {}", name, n, c.len(), c.cap())));
            return f;
        }
    }
    f
}

pub fn capacity_sweep(tier: Tier) -> EngineReport {
    let mut rep = EngineReport { name: "capacity sweep (every constructor; RawLRU and the protected segment up to 2^20 quick / 2^21 thorough, composite caches up to 2^17)".into(), exhaustive: true, ..Default::default() };
    let caps = caps(tier);
    let results: Vec<(usize, u64, Vec<Finding>)> = caps
        .par_iter()
        .map(|&n| {
            let mut f = vec![];
            let mut evals = 0u64;
            let r = catch_unwind(AssertUnwindSafe(|| {
                let mut f = vec![];
                f.extend(raw_script("RawLRU::new", n, RawLRU::<u64, u64>::new(n)));
                f.extend(raw_script("RawLRU::with_hasher", n, RawLRU::<u64, u64, DefaultEvictCallback, HB>::with_hasher(n, HB::new(HKind::Fnv))));
                f.extend(raw_script("RawLRU::with_on_evict_cb", n, RawLRU::<u64, u64, NopCb>::with_on_evict_cb(n, NopCb)));
                f.extend(raw_script("RawLRU::with_on_evict_cb_and_hasher", n, RawLRU::<u64, u64, NopCb, HB>::with_on_evict_cb_and_hasher(n, NopCb, HB::new(HKind::Identity))));
                if n <= 1 << 17 {
                    f.extend(composite_script("TwoQueueCache::new", "C08", n, n, n, TwoQueueCache::<u64, u64>::new(n).map_err(|e| format!("{:?}", e))));
                    f.extend(composite_script("TwoQueueCacheBuilder", "C08", n, n, n, caches::TwoQueueCacheBuilder::new(n).finalize::<u64, u64>().map_err(|e| format!("{:?}", e))));
                    f.extend(composite_script("AdaptiveCache::new", "C09", n, n, n, AdaptiveCache::<u64, u64>::new(n).map_err(|e| format!("{:?}", e))));
                    f.extend(composite_script("AdaptiveCacheBuilder", "C09", n, n, n, caches::AdaptiveCacheBuilder::new(n).finalize::<u64, u64>().map_err(|e| format!("{:?}", e))));
                    let (pb, pt) = (n - n / 2, n / 2);
                    if pt >= 1 {
                        f.extend(composite_script("SegmentedCache::new", "C07", n, pb, pt.min(pb), SegmentedCache::<u64, u64>::new(pb, pt).map_err(|e| format!("{:?}", e))));
                    }
                }
                if n >= 1 << 16 && n.is_power_of_two() {
                    // a protected segment just above a power of two, filled by promotions one at a time
                    let pt = n + 1;
                    if let Ok(mut c) = SegmentedCache::<u64, u64>::new(2, pt) {
                        for k in 0..pt as u64 {
                            c.put(k, k);
                            let _ = c.get(&k);
                            if c.protected_len() != k as usize + 1 || c.probationary_len() != 0 {
                                f.push(Finding::new(
                                    "C07",
                                    "nothing_leaves_below_capacity",
                                    "SegmentedCache::new/protected".to_string(),
                                    format!("SegmentedCache::new(2, {}): after promoting {} keys one by one the protected segment holds {} and the probationary {} (expected {} and 0)", pt, k + 1, c.protected_len(), c.probationary_len(), k + 1),
                                ));
                                break;
                            }
                        }
                        if c.cap() != pt + 2 {
                            f.push(Finding::new("C01", "cap_reported", "SegmentedCache::new/protected".to_string(), format!("SegmentedCache::new(2, {}) reports cap() == {}", pt, c.cap())));
                        }
                    }
                }
                f
            }));
            evals += 7;
            match r {
                Ok(x) => f.extend(x),
                Err(_) => {
                    let m = crate::panics::take_last();
                    f.push(Finding::new("C05", "no_panic", format!("capacity-sweep:{}", crate::panics::location_of(&m)), format!("a constructor or put panicked at capacity {}: {}", n, m)));
                }
            }
            (n, evals, f)
        })
        .collect();
    for (n, evals, fs) in results {
        rep.evaluations += evals;
        rep.states += 1;
        rep.transitions += (n as u64 + 1) * 4;
        for f in fs {
            rep.violations.push(Extra { finding: f, case: json!({"engine": "capacity-sweep", "capacity": n}), count: 1 });
        }
    }
    rep.distinct_nontrivial = rep.states;
    rep.detail = json!({"capacities": caps, "constructors": ["RawLRU::new", "RawLRU::with_hasher", "RawLRU::with_on_evict_cb", "RawLRU::with_on_evict_cb_and_hasher", "TwoQueueCache::new", "TwoQueueCacheBuilder", "AdaptiveCache::new", "AdaptiveCacheBuilder", "SegmentedCache::new"],
        "script": "cap() is the requested one; n distinct puts return Put with len growing by one; put n+1 evicts key 0 and peek_lru names key 1"});
    rep
}

/// C08: "Quota and ghost bound are floor(size x ratio) of the configured ratios" on a grid of sizes and
/// two-decimal (thorough: three-decimal) ratios, through both 2Q constructors.
pub fn quota_sweep(tier: Tier) -> EngineReport {
    let mut rep = EngineReport { name: "2Q quota sweep (sizes x ratios, both constructors)".into(), exhaustive: true, ..Default::default() };
    let (max_size, steps) = if tier == Tier::Thorough { (512usize, 1000usize) } else { (128usize, 100usize) };
    let results: Vec<(u64, Vec<(Finding, serde_json::Value)>)> = (1..=max_size)
        .into_par_iter()
        .map(|size| {
            let mut out = vec![];
            let mut n = 0u64;
            for i in 0..=steps {
                let r = i as f64 / steps as f64;
                for (rr, gr) in [(r, 0.5), (0.25, r), (r, r)] {
                    let want_q = (size as f64 * rr).floor() as usize;
                    let want_g = (size as f64 * gr).floor() as usize;
                    let made: Vec<(&str, Result<(usize, usize), String>)> = vec![
                        ("with_2q_parameters", catch_unwind(|| TwoQueueCache::<u64, u64>::with_2q_parameters(size, rr, gr).map(|c| (c.verif_recent_quota(), c.verif_ghost().cap())).map_err(|e| format!("{:?}", e))).unwrap_or_else(|_| Err(crate::panics::take_last()))),
                        (
                            "builder",
                            catch_unwind(|| TwoQueueCacheBuilder::new(size).set_recent_ratio(rr).set_ghost_ratio(gr).finalize::<u64, u64>().map(|c| (c.verif_recent_quota(), c.verif_ghost().cap())).map_err(|e| format!("{:?}", e)))
                                .unwrap_or_else(|_| Err(crate::panics::take_last())),
                        ),
                    ];
                    for (name, m) in made {
                        n += 1;
                        if let Ok((q, g)) = m {
                            if q != want_q || g != want_g {
                                out.push((
                                    Finding::new("C08", "quota_is_floor", format!("sweep/{}", name), format!("{}({}, {}, {}): recent quota {} / ghost bound {} but floor(size x ratio) gives {} / {}", name, size, rr, gr, q, g, want_q, want_g)),
                                    json!({"engine": "quota-sweep", "size": size, "recent_ratio": rr, "ghost_ratio": gr, "constructor": name}),
                                ));
                            }
                        }
                    }
                }
            }
            (n, out)
        })
        .collect();
    for (n, fs) in results {
        rep.evaluations += n;
        for (f, case) in fs {
            if rep.violations.len() < 200 {
                rep.violations.push(Extra { finding: f, case, count: 1 });
            }
        }
    }
    rep.states = max_size as u64 * (steps as u64 + 1) * 3;
    rep.transitions = rep.evaluations;
    rep.distinct_nontrivial = rep.states;
    rep.detail = json!({"sizes": format!("1..={}", max_size), "ratios": format!("i/{} for i in 0..={}", steps, steps), "pairs": "(r, 0.5), (0.25, r), (r, r)", "constructors": ["with_2q_parameters", "TwoQueueCacheBuilder"]});
    rep
}
