//! E4: finite grids enumerated completely — constructor/builder argument tuples (C05) and the
//! structural behaviour of PutResult values (C12).
use crate::check::{EngineReport, Extra};
use crate::hashers::{HKind, KHKind, HB, KH};
use crate::oracle::Finding;
use crate::plan::Tier;
use caches::lfu::{SampledLFU, TinyLFU};
use caches::lru::CacheError;
use caches::{
    AdaptiveCache, AdaptiveCacheBuilder, Cache, DefaultEvictCallback, PutResult, RawLRU, SegmentedCache, SegmentedCacheBuilder, TwoQueueCache,
    TwoQueueCacheBuilder, WTinyLFUCache, WTinyLFUCacheBuilder,
};
use serde_json::json;
#[allow(unused_imports)]
use std::collections::{BTreeMap, BTreeSet, BinaryHeap, HashMap, HashSet, LinkedList, VecDeque};
use std::panic::{catch_unwind, AssertUnwindSafe};

#[derive(Clone, Debug, PartialEq)]
enum Expect {
    /// documented-invalid argument: must be rejected with an error whose Debug text starts with one of these
    Err(Vec<&'static str>),
    /// anything but a panic
    NoPanic,
    /// valid arguments: must construct
    Ok,
}

struct Point {
    desc: String,
    expect: Expect,
    /// Ok(()) = constructed and smoke-tested; Err(text) = constructor returned this error
    run: Box<dyn Fn() -> Result<(), String> + Send + Sync>,
}

fn smoke<C: Cache<u64, u64>>(mut c: C) {
    let n = c.cap() as u64 + 2;
    for k in 0..n {
        let _ = c.put(k, k);
    }
    for k in 0..n {
        let _ = c.get(&k);
        let _ = c.put(k, k + 1);
    }
    let _ = c.get_mut(&0);
    let _ = c.peek(&1);
    let _ = c.contains(&2);
    let _ = c.remove(&1);
    let _ = c.len();
    let _ = c.is_empty();
    c.purge();
    let _ = c.put(1, 1);
}

fn err_of(e: CacheError) -> String {
    format!("{:?}", e)
}

fn ratio_bad(r: f64) -> bool {
    !(0.0..=1.0).contains(&r)
}
fn fpr_bad(r: f64) -> bool {
    !(r > 0.0 && r < 1.0)
}

fn twoq_expect(n: usize, rr: f64, gr: f64) -> Expect {
    let mut errs = vec![];
    if n == 0 {
        errs.push("InvalidSize");
    }
    if ratio_bad(rr) {
        errs.push("InvalidRecentRatio");
    }
    if ratio_bad(gr) {
        errs.push("InvalidGhostRatio");
    }
    if errs.is_empty() {
        Expect::NoPanic // e.g. a ghost bound that floors to 0 may be refused
    } else {
        Expect::Err(errs)
    }
}

fn wt_expect(w: usize, pt: usize, pb: usize, samples: usize, fpr: f64) -> Expect {
    let mut errs = vec![];
    if w == 0 {
        errs.push("invalid window cache size");
    }
    if pt == 0 {
        errs.push("invalid protected cache size");
    }
    if pb == 0 {
        errs.push("invalid probationary cache size");
    }
    if samples == 0 {
        errs.push("invalid number of samples");
    }
    if fpr_bad(fpr) {
        errs.push("invalid false positive ratio");
    }
    if errs.is_empty() {
        Expect::Ok
    } else {
        Expect::Err(errs)
    }
}

fn points(tier: Tier) -> Vec<Point> {
    let mut v: Vec<Point> = vec![];
    let sizes: Vec<usize> = if tier == Tier::Thorough { vec![0, 1, 2, 3, 5, 8] } else { vec![0, 1, 2, 3, 8] };
    let ratios: Vec<f64> = vec![-0.1, -0.0, 0.0, 0.25, 0.5, 0.999_999_999, 1.0, 1.000_000_1, 3.0, f64::NAN, f64::INFINITY, f64::NEG_INFINITY];
    let fprs: Vec<f64> = vec![f64::NAN, -1.0, 0.0, 5e-324, 0.01, 0.5, 0.999_999_999_999, 1.0, 7.0, f64::INFINITY];
    let sampless: Vec<usize> = vec![0, 1, 2, 5];
    macro_rules! pt {
        ($desc:expr, $exp:expr, $body:expr) => {
            v.push(Point { desc: $desc, expect: $exp, run: Box::new($body) })
        };
    }
    // ---- RawLRU
    for &n in &sizes {
        let e = if n == 0 { Expect::Err(vec!["InvalidSize"]) } else { Expect::Ok };
        pt!(format!("RawLRU::new({})", n), e.clone(), move || RawLRU::<u64, u64>::new(n).map(smoke).map_err(err_of));
        pt!(format!("RawLRU::with_hasher({}, _)", n), e.clone(), move || RawLRU::<u64, u64, DefaultEvictCallback, HB>::with_hasher(n, HB::new(HKind::Zero)).map(smoke).map_err(err_of));
        pt!(format!("RawLRU::with_on_evict_cb({}, _)", n), e.clone(), move || RawLRU::<u64, u64, DefaultEvictCallback>::with_on_evict_cb(n, DefaultEvictCallback).map(smoke).map_err(err_of));
        pt!(format!("RawLRU::with_on_evict_cb_and_hasher({}, _, _)", n), e.clone(), move || {
            RawLRU::<u64, u64, DefaultEvictCallback, HB>::with_on_evict_cb_and_hasher(n, DefaultEvictCallback, HB::new(HKind::Fnv)).map(smoke).map_err(err_of)
        });
    }
    // conversions, with 0 / 1 / 3 items, and iterators whose size_hint lower bound is 0 or under-reports
    for &n in &[0u64, 1, 3] {
        let items: Vec<(u64, u64)> = (0..n).map(|i| (i, i)).collect();
        let it = items.clone();
        pt!(format!("RawLRU::from(Vec) with {} items", n), Expect::Ok, move || Ok(smoke(RawLRU::<u64, u64>::from(it.clone()))));
        let it = items.clone();
        pt!(format!("RawLRU::from(&[..]) with {} items", n), Expect::Ok, move || Ok(smoke(RawLRU::<u64, u64>::from(&it[..]))));
        let it = items.clone();
        pt!(format!("RawLRU::from(&mut [..]) with {} items", n), Expect::Ok, move || {
            let mut x = it.clone();
            Ok(smoke(RawLRU::<u64, u64>::from(&mut x[..])))
        });
        let it = items.clone();
        pt!(format!("RawLRU::from(VecDeque) with {} items", n), Expect::Ok, move || Ok(smoke(RawLRU::<u64, u64>::from(it.iter().copied().collect::<VecDeque<_>>()))));
        let it = items.clone();
        pt!(format!("RawLRU::from(LinkedList) with {} items", n), Expect::Ok, move || Ok(smoke(RawLRU::<u64, u64>::from(it.iter().copied().collect::<LinkedList<_>>()))));
        #[cfg(feature = "std")]
        {
            let it = items.clone();
            pt!(format!("RawLRU::from(HashSet) with {} items", n), Expect::Ok, move || Ok(smoke(RawLRU::<u64, u64>::from(it.iter().copied().collect::<HashSet<_>>()))));
            let it = items.clone();
            pt!(format!("RawLRU::from(HashMap) with {} items", n), Expect::Ok, move || Ok(smoke(RawLRU::<u64, u64>::from(it.iter().copied().collect::<HashMap<_, _>>()))));
        }
        let it = items.clone();
        pt!(format!("RawLRU::from(BTreeSet) with {} items", n), Expect::Ok, move || Ok(smoke(RawLRU::<u64, u64>::from(it.iter().copied().collect::<BTreeSet<_>>()))));
        let it = items.clone();
        pt!(format!("RawLRU::from(BinaryHeap) with {} items", n), Expect::Ok, move || Ok(smoke(RawLRU::<u64, u64>::from(it.iter().copied().collect::<BinaryHeap<_>>()))));
        let it = items.clone();
        pt!(format!("RawLRU::from(BTreeMap) with {} items", n), Expect::Ok, move || Ok(smoke(RawLRU::<u64, u64>::from(it.iter().copied().collect::<BTreeMap<_, _>>()))));
        let it = items.clone();
        pt!(format!("collect::<RawLRU>() from a filtered iterator (size_hint lower bound 0) with {} items", n), Expect::Ok, move || {
            Ok(smoke(it.iter().copied().filter(|_| true).collect::<RawLRU<u64, u64>>()))
        });
        let it = items.clone();
        pt!(format!("collect::<RawLRU>() from a chained iterator with {} items", n), Expect::Ok, move || {
            Ok(smoke(it.iter().copied().chain(it.iter().copied().filter(|x| x.0 > 100)).collect::<RawLRU<u64, u64>>()))
        });
    }
    pt!("RawLRU::from([(K,V); 0])".to_string(), Expect::Ok, || Ok(smoke(RawLRU::<u64, u64>::from([(0u64, 0u64); 0]))));
    pt!("RawLRU::from([(K,V); 1])".to_string(), Expect::Ok, || Ok(smoke(RawLRU::<u64, u64>::from([(0u64, 0u64)]))));
    pt!("RawLRU::from([(K,V); 3])".to_string(), Expect::Ok, || Ok(smoke(RawLRU::<u64, u64>::from([(0u64, 0u64), (1, 1), (2, 2)]))));

    // ---- SegmentedCache
    for &pb in &sizes {
        for &ptn in &sizes {
            let e = if pb == 0 || ptn == 0 { Expect::Err(vec!["InvalidSize"]) } else { Expect::Ok };
            pt!(format!("SegmentedCache::new({}, {})", pb, ptn), e.clone(), move || SegmentedCache::<u64, u64>::new(pb, ptn).map(smoke).map_err(err_of));
            pt!(format!("SegmentedCache::builder({}, {}).finalize()", pb, ptn), e.clone(), move || SegmentedCache::<u64, u64>::builder(pb, ptn).finalize::<u64, u64>().map(smoke).map_err(err_of));
            pt!(format!("SegmentedCacheBuilder::default().set_protected_size({}).set_probationary_size({}) via from_builder, custom hashers", ptn, pb), e.clone(), move || {
                let b = SegmentedCacheBuilder::default().set_protected_size(ptn).set_probationary_size(pb).set_probationary_hasher(HB::new(HKind::Zero)).set_protected_hasher(HB::new(HKind::Fnv));
                SegmentedCache::<u64, u64, HB, HB>::from_builder(b).map(smoke).map_err(err_of)
            });
        }
    }
    // ---- AdaptiveCache
    for &n in &sizes {
        let e = if n == 0 { Expect::Err(vec!["InvalidSize"]) } else { Expect::Ok };
        pt!(format!("AdaptiveCache::new({})", n), e.clone(), move || AdaptiveCache::<u64, u64>::new(n).map(smoke).map_err(err_of));
        pt!(format!("AdaptiveCache::builder({}).finalize()", n), e.clone(), move || AdaptiveCache::<u64, u64>::builder(n).finalize::<u64, u64>().map(smoke).map_err(err_of));
        pt!(format!("AdaptiveCacheBuilder::default().set_size({}) + 4 hashers via from_builder", n), e.clone(), move || {
            let b = AdaptiveCacheBuilder::default()
                .set_size(n)
                .set_recent_hasher(HB::new(HKind::Zero))
                .set_frequent_hasher(HB::new(HKind::Fnv))
                .set_recent_evict_hasher(HB::new(HKind::SipB))
                .set_frequent_evict_hasher(HB::new(HKind::Identity));
            AdaptiveCache::<u64, u64, HB, HB, HB, HB>::from_builder(b).map(smoke).map_err(err_of)
        });
    }
    // ---- TwoQueueCache
    for &n in &sizes {
        pt!(format!("TwoQueueCache::new({})", n), twoq_expect(n, 0.25, 0.5), move || TwoQueueCache::<u64, u64>::new(n).map(smoke).map_err(err_of));
        pt!(format!("TwoQueueCacheBuilder::new({}).finalize()", n), twoq_expect(n, 0.25, 0.5), move || TwoQueueCacheBuilder::new(n).finalize::<u64, u64>().map(smoke).map_err(err_of));
        pt!(format!("TwoQueueCache::builder({}) + hashers via from_builder", n), twoq_expect(n, 0.25, 0.5), move || {
            let b = TwoQueueCache::<u64, u64>::builder(n).set_recent_hasher(HB::new(HKind::Zero)).set_frequent_hasher(HB::new(HKind::Fnv)).set_ghost_hasher(HB::new(HKind::SipB));
            TwoQueueCache::<u64, u64, HB, HB, HB>::from_builder(b).map(smoke).map_err(err_of)
        });
        for &r in &ratios {
            pt!(format!("TwoQueueCache::with_recent_ratio({}, {})", n, r), twoq_expect(n, r, 0.5), move || TwoQueueCache::<u64, u64>::with_recent_ratio(n, r).map(smoke).map_err(err_of));
            pt!(format!("TwoQueueCache::with_ghost_ratio({}, {})", n, r), twoq_expect(n, 0.25, r), move || TwoQueueCache::<u64, u64>::with_ghost_ratio(n, r).map(smoke).map_err(err_of));
            for &g in &ratios {
                pt!(format!("TwoQueueCache::with_2q_parameters({}, {}, {})", n, r, g), twoq_expect(n, r, g), move || TwoQueueCache::<u64, u64>::with_2q_parameters(n, r, g).map(smoke).map_err(err_of));
                pt!(format!("TwoQueueCacheBuilder::default().set_ghost_ratio({}).set_size({}).set_recent_ratio({}).finalize()", g, n, r), twoq_expect(n, r, g), move || {
                    TwoQueueCacheBuilder::default().set_ghost_ratio(g).set_size(n).set_recent_ratio(r).finalize::<u64, u64>().map(smoke).map_err(err_of)
                });
            }
        }
    }
    // ---- W-TinyLFU
    let wsizes: Vec<usize> = vec![0, 1, 2];
    for &w in &wsizes {
        for &ptn in &wsizes {
            for &pb in &wsizes {
                for &s in &sampless {
                    pt!(format!("WTinyLFUCache::with_sizes({}, {}, {}, {})", w, ptn, pb, s), wt_expect(w, ptn, pb, s, 0.01), move || {
                        WTinyLFUCache::<u64, u64>::with_sizes(w, ptn, pb, s).map(smoke).map_err(|e| format!("{}", e))
                    });
                }
            }
        }
    }
    for &f in &fprs {
        for &s in &[0usize, 3] {
            for &w in &[0usize, 1] {
                pt!(format!("WTinyLFUCacheBuilder: window {}, protected 1, probationary 2, samples {}, false_positive_ratio {}", w, s, f), wt_expect(w, 1, 2, s, f), move || {
                    let b = WTinyLFUCacheBuilder::<u64, KH, HB, HB, HB>::with_hashers(KH(KHKind::Spread), HB::new(HKind::Zero), HB::new(HKind::Fnv), HB::new(HKind::SipB))
                        .set_false_positive_ratio(f)
                        .set_samples(s)
                        .set_probationary_cache_size(2)
                        .set_protected_cache_size(1)
                        .set_window_cache_size(w);
                    WTinyLFUCache::<u64, u64, KH, HB, HB, HB>::from_builder(b).map(smoke).map_err(|e| format!("{}", e))
                });
            }
        }
    }
    // every builder field survives every later setter: one field is made invalid, then each of the other
    // setters is called with a valid argument; the builder must still be rejected for that field
    {
        type WB = WTinyLFUCacheBuilder<u64, KH, HB, HB, HB>;
        fn base() -> WB {
            WTinyLFUCacheBuilder::<u64, KH, HB, HB, HB>::with_hashers(KH(KHKind::Identity), HB::new(HKind::SipA), HB::new(HKind::SipA), HB::new(HKind::SipA))
                .set_samples(3)
                .set_window_cache_size(1)
                .set_protected_cache_size(1)
                .set_probationary_cache_size(2)
        }
        let invalid: Vec<(&'static str, &'static str, fn(WB) -> WB)> = vec![
            ("set_false_positive_ratio(1.5)", "invalid false positive ratio", |b| b.set_false_positive_ratio(1.5)),
            ("set_false_positive_ratio(NaN)", "invalid false positive ratio", |b| b.set_false_positive_ratio(f64::NAN)),
            ("set_samples(0)", "invalid number of samples", |b| b.set_samples(0)),
            ("set_window_cache_size(0)", "invalid window cache size", |b| b.set_window_cache_size(0)),
            ("set_protected_cache_size(0)", "invalid protected cache size", |b| b.set_protected_cache_size(0)),
            ("set_probationary_cache_size(0)", "invalid probationary cache size", |b| b.set_probationary_cache_size(0)),
        ];
        for (iname, msg, inv) in invalid {
            fn fin<E: std::fmt::Display>(r: Result<WTinyLFUCache<u64, u64, KH, HB, HB, HB>, E>) -> Result<(), String> {
                r.map(smoke).map_err(|e| format!("{}", e))
            }
            pt!(format!("WTinyLFUCacheBuilder: {} then set_window_hasher", iname), Expect::Err(vec![msg]), move || fin(inv(base()).set_window_hasher(HB::new(HKind::Fnv)).finalize::<u64>()));
            pt!(format!("WTinyLFUCacheBuilder: {} then set_protected_hasher", iname), Expect::Err(vec![msg]), move || fin(inv(base()).set_protected_hasher(HB::new(HKind::Fnv)).finalize::<u64>()));
            pt!(format!("WTinyLFUCacheBuilder: {} then set_probationary_hasher", iname), Expect::Err(vec![msg]), move || fin(inv(base()).set_probationary_hasher(HB::new(HKind::Fnv)).finalize::<u64>()));
            pt!(format!("WTinyLFUCacheBuilder: {} then set_key_hasher", iname), Expect::Err(vec![msg]), move || fin(inv(base()).set_key_hasher(KH(KHKind::Spread)).finalize::<u64>()));
            if !iname.starts_with("set_samples") {
                pt!(format!("WTinyLFUCacheBuilder: {} then set_samples(4)", iname), Expect::Err(vec![msg]), move || fin(inv(base()).set_samples(4).finalize::<u64>()));
            }
            if !iname.starts_with("set_window") {
                pt!(format!("WTinyLFUCacheBuilder: {} then set_window_cache_size(2)", iname), Expect::Err(vec![msg]), move || fin(inv(base()).set_window_cache_size(2).finalize::<u64>()));
            }
            if !iname.starts_with("set_protected") {
                pt!(format!("WTinyLFUCacheBuilder: {} then set_protected_cache_size(2)", iname), Expect::Err(vec![msg]), move || fin(inv(base()).set_protected_cache_size(2).finalize::<u64>()));
            }
            if !iname.starts_with("set_probationary") {
                pt!(format!("WTinyLFUCacheBuilder: {} then set_probationary_cache_size(3)", iname), Expect::Err(vec![msg]), move || fin(inv(base()).set_probationary_cache_size(3).finalize::<u64>()));
            }
            if !iname.starts_with("set_false") {
                pt!(format!("WTinyLFUCacheBuilder: {} then set_false_positive_ratio(0.2)", iname), Expect::Err(vec![msg]), move || fin(inv(base()).set_false_positive_ratio(0.2).finalize::<u64>()));
            }
        }
        // the same for the other builders: an invalid size / ratio followed by each hasher setter
        for (rname, rr, gr, msg) in [("recent ratio 1.5", 1.5f64, 0.5f64, "InvalidRecentRatio"), ("ghost ratio NaN", 0.25, f64::NAN, "InvalidGhostRatio"), ("ghost ratio -0.1", 0.25, -0.1, "InvalidGhostRatio")] {
            let mk = move || TwoQueueCacheBuilder::new(4).set_recent_ratio(rr).set_ghost_ratio(gr);
            pt!(format!("TwoQueueCacheBuilder: {} then set_recent_hasher", rname), Expect::Err(vec![msg]), move || mk().set_recent_hasher(HB::new(HKind::Fnv)).finalize::<u64, u64>().map(smoke).map_err(err_of));
            pt!(format!("TwoQueueCacheBuilder: {} then set_frequent_hasher", rname), Expect::Err(vec![msg]), move || mk().set_frequent_hasher(HB::new(HKind::Fnv)).finalize::<u64, u64>().map(smoke).map_err(err_of));
            pt!(format!("TwoQueueCacheBuilder: {} then set_ghost_hasher", rname), Expect::Err(vec![msg]), move || mk().set_ghost_hasher(HB::new(HKind::Fnv)).finalize::<u64, u64>().map(smoke).map_err(err_of));
            pt!(format!("TwoQueueCacheBuilder: {} then set_size(5)", rname), Expect::Err(vec![msg]), move || mk().set_size(5).finalize::<u64, u64>().map(smoke).map_err(err_of));
        }
        pt!("TwoQueueCacheBuilder: size 0 then the three hasher setters".to_string(), Expect::Err(vec!["InvalidSize"]), move || {
            TwoQueueCacheBuilder::new(0).set_recent_hasher(HB::new(HKind::Fnv)).set_frequent_hasher(HB::new(HKind::Zero)).set_ghost_hasher(HB::new(HKind::SipB)).finalize::<u64, u64>().map(smoke).map_err(err_of)
        });
        pt!("AdaptiveCacheBuilder: size 0 then the four hasher setters".to_string(), Expect::Err(vec!["InvalidSize"]), move || {
            caches::AdaptiveCacheBuilder::new(0)
                .set_recent_hasher(HB::new(HKind::Fnv))
                .set_frequent_hasher(HB::new(HKind::Zero))
                .set_recent_evict_hasher(HB::new(HKind::SipB))
                .set_frequent_evict_hasher(HB::new(HKind::SipA))
                .finalize::<u64, u64>()
                .map(smoke)
                .map_err(err_of)
        });
        for (pb, ptn, msg) in [(0usize, 2usize, "InvalidSize"), (2, 0, "InvalidSize")] {
            pt!(format!("SegmentedCacheBuilder: sizes ({}, {}) then the two hasher setters", pb, ptn), Expect::Err(vec![msg]), move || {
                caches::SegmentedCacheBuilder::new(pb, ptn).set_probationary_hasher(HB::new(HKind::Fnv)).set_protected_hasher(HB::new(HKind::Zero)).finalize::<u64, u64>().map(smoke).map_err(err_of)
            });
        }
    }
    for &n in &[0usize, 1, 5, 99, 100, 200] {
        for &s in &[0usize, 4] {
            // the window is 1% of size: sizes below 100 have no window and must be refused, not panic
            let e = if n < 100 || s == 0 { Expect::NoPanic } else { Expect::Ok };
            pt!(format!("WTinyLFUCache::new({}, {})", n, s), e, move || WTinyLFUCache::<u64, u64>::new(n, s).map(smoke).map_err(|e| format!("{}", e)));
        }
    }
    // ---- TinyLFU
    for &n in &sizes {
        for &s in &sampless {
            for &f in &fprs {
                let mut errs = vec![];
                if s == 0 {
                    errs.push("invalid number of samples");
                }
                if fpr_bad(f) {
                    errs.push("invalid false positive ratio");
                }
                if n == 0 {
                    errs.push("invalid count main sketch width");
                }
                let e = if errs.is_empty() { Expect::Ok } else { Expect::Err(errs) };
                pt!(format!("TinyLFU::new({}, {}, {})", n, s, f), e, move || {
                    TinyLFU::<u64>::new(n, s, f)
                        .map(|mut l| {
                            for h in [0u64, 1, u64::MAX, 1 << 32] {
                                l.increment_hashed_key(h);
                                let _ = l.estimate_hashed_key(h);
                            }
                            l.increment(&7);
                            let _ = l.estimate(&7);
                            let _ = l.lt(&7, &8);
                            l.try_reset();
                            l.clear();
                        })
                        .map_err(|e| format!("{}", e))
                });
            }
        }
    }
    // ---- sketch index sweep: every counter position of every row, for widths around every power of two
    for &n in &[1usize, 2, 3, 4, 5, 7, 8, 9, 15, 16, 17, 18, 31, 32, 33, 47, 48, 49, 63, 64, 65, 100, 127, 128, 129, 255, 256, 257, 1000, 1023, 1024, 1025, 4097] {
        pt!(format!("TinyLFU::new({}, 100000, 0.01): record and query every hash residue 0..4*size and hashes near 2^32 / 2^64", n), Expect::Ok, move || {
            TinyLFU::<u64>::new(n, 100_000, 0.01)
                .map(|mut l| {
                    let top = (4 * n as u64).max(8);
                    for h in (0..top).chain((1u64 << 32) - 2..(1u64 << 32) + 2).chain(u64::MAX - top..=u64::MAX) {
                        l.increment_hashed_key(h);
                        l.increment_hashed_key(h);
                        let _ = l.estimate_hashed_key(h);
                    }
                })
                .map_err(|e| format!("{}", e))
        });
    }
    // the same through W-TinyLFU, whose sketch width is the sum of its three sizes
    for &(w, p, q) in &[(1usize, 8usize, 8usize), (1, 16, 16), (3, 30, 32), (1, 2, 2), (5, 6, 6)] {
        pt!(format!("WTinyLFUCache::with_sizes({}, {}, {}, 100000): get and put 4x(sum of sizes) distinct keys", w, p, q), Expect::Ok, move || {
            WTinyLFUCache::<u64, u64>::with_sizes(w, p, q, 100_000)
                .map(|mut c| {
                    for k in 0..(4 * (w + p + q) as u64) {
                        let _ = c.get(&k);
                        let _ = c.get(&k);
                        let _ = c.put(k, k);
                    }
                })
                .map_err(|e| format!("{}", e))
        });
    }
    // ---- SampledLFU: no validation, never panics
    for &m in &[i64::MIN, -1, 0, 1, 100, i64::MAX] {
        for &s in &sampless {
            pt!(format!("SampledLFU::with_samples({}, {}) and friends", m, s), Expect::Ok, move || {
                let mut a = SampledLFU::<u64>::with_samples(m, s);
                let mut b = SampledLFU::<u64, caches::lfu::DefaultKeyHasher<u64>, HB>::with_samples_and_hasher(m, s, HB::new(HKind::Zero));
                let mut c = SampledLFU::<u64, KH, HB>::with_samples_and_key_hasher_and_hasher(m, s, KH(KHKind::Identity), HB::new(HKind::Fnv));
                let d = SampledLFU::<u64>::new(m);
                let _ = d.get_max_cost();
                a.increment(&1, 0);
                b.increment_hashed_key(u64::MAX, 0);
                c.increment(&3, 0);
                let _ = (a.fill_sample(vec![]), b.fill_sample(vec![(1, 1)]), c.fill_sample(vec![]));
                let _ = (a.remove(&1), b.remove_hashed_key(0), c.update(&3, 0));
                a.clear();
                Ok(())
            });
        }
    }
    v
}

pub fn run(tier: Tier) -> EngineReport {
    let mut rep = EngineReport { name: "constructor-grid".into(), exhaustive: true, ..Default::default() };
    let pts = points(tier);
    let mut outcomes: BTreeMap<String, u64> = BTreeMap::new();
    for p in &pts {
        rep.evaluations += 1;
        let r = catch_unwind(AssertUnwindSafe(|| (p.run)()));
        let (class, problem): (String, Option<(String, String, String)>) = match (&r, &p.expect) {
            (Err(_), _) => {
                let m = crate::panics::take_last();
                ("panic".into(), Some(("no_panic".into(), format!("ctor:{}", crate::panics::location_of(&m)), format!("{} panicked: {}", p.desc, m))))
            }
            (Ok(Ok(())), Expect::Err(names)) => ("accepted-invalid".into(), Some(("invalid_arguments_rejected".into(), p.desc.split('(').next().unwrap_or("").to_string(), format!("{} was accepted, expected an error like {:?}", p.desc, names)))),
            (Ok(Err(e)), Expect::Err(names)) => {
                if names.iter().any(|n| e.contains(n)) {
                    ("rejected-with-matching-error".into(), None)
                } else {
                    ("rejected-with-other-error".into(), Some(("matching_error".into(), p.desc.split('(').next().unwrap_or("").to_string(), format!("{} returned {:?}, expected an error like {:?}", p.desc, e, names))))
                }
            }
            (Ok(Err(e)), Expect::Ok) => ("rejected-valid".into(), Some(("valid_arguments_accepted".into(), p.desc.split('(').next().unwrap_or("").to_string(), format!("{} was rejected with {:?}", p.desc, e)))),
            (Ok(Ok(())), _) => ("constructed".into(), None),
            (Ok(Err(_)), Expect::NoPanic) => ("rejected-corner".into(), None),
        };
        *outcomes.entry(class).or_insert(0) += 1;
        if let Some((check, disc, detail)) = problem {
            rep.violations.push(Extra { finding: Finding::new("C05", &check, disc, detail), case: json!({"engine": "grid", "point": p.desc}), count: 1 });
        }
    }
    rep.distinct_nontrivial = pts.iter().filter(|p| p.expect != Expect::Ok).count() as u64;
    rep.samples = pts.iter().step_by(pts.len() / 5 + 1).map(|p| json!({"engine": "grid", "point": p.desc, "expect": format!("{:?}", p.expect)})).collect();
    rep.detail = json!({"points": pts.len(), "outcomes": outcomes, "feature_build": if cfg!(feature = "std") { "std" } else { "no_std (hashbrown + libm)" }});
    rep
}

pub fn replay_point(desc: &str) -> Vec<Finding> {
    let mut rep = EngineReport::default();
    for p in points(Tier::Thorough) {
        if p.desc == desc {
            let one = vec![p];
            // re-evaluate just this point through the same classification
            let r = catch_unwind(AssertUnwindSafe(|| (one[0].run)()));
            match (&r, &one[0].expect) {
                (Err(_), _) => {
                    let m = crate::panics::take_last();
                    rep.violations.push(Extra { finding: Finding::new("C05", "no_panic", format!("ctor:{}", crate::panics::location_of(&m)), format!("{} panicked: {}", desc, m)), case: json!(null), count: 1 });
                }
                (Ok(Ok(())), Expect::Err(n)) => rep.violations.push(Extra { finding: Finding::new("C05", "invalid_arguments_rejected", desc, format!("{} was accepted, expected {:?}", desc, n)), case: json!(null), count: 1 }),
                (Ok(Err(e)), Expect::Err(n)) if !n.iter().any(|x| e.contains(x)) => rep.violations.push(Extra { finding: Finding::new("C05", "matching_error", desc, format!("{} returned {:?}, expected {:?}", desc, e, n)), case: json!(null), count: 1 }),
                (Ok(Err(e)), Expect::Ok) => rep.violations.push(Extra { finding: Finding::new("C05", "valid_arguments_accepted", desc, format!("{} was rejected with {:?}", desc, e)), case: json!(null), count: 1 }),
                _ => {}
            }
        }
    }
    rep.violations.into_iter().map(|e| e.finding).collect()
}

// ------------------------------------------------------------------ C12 structural part

fn all_put_results() -> Vec<PutResult<u8, u8>> {
    let mut v = vec![PutResult::Put];
    for a in 0..2u8 {
        v.push(PutResult::Update(a));
        for b in 0..2u8 {
            v.push(PutResult::Evicted { key: a, value: b });
            for c in 0..2u8 {
                v.push(PutResult::EvictedAndUpdate { evicted: (a, b), update: c });
            }
        }
    }
    v
}

fn structural_eq(a: &PutResult<u8, u8>, b: &PutResult<u8, u8>) -> bool {
    match (a, b) {
        (PutResult::Put, PutResult::Put) => true,
        (PutResult::Update(x), PutResult::Update(y)) => x == y,
        (PutResult::Evicted { key: k1, value: v1 }, PutResult::Evicted { key: k2, value: v2 }) => k1 == k2 && v1 == v2,
        (PutResult::EvictedAndUpdate { evicted: e1, update: u1 }, PutResult::EvictedAndUpdate { evicted: e2, update: u2 }) => e1 == e2 && u1 == u2,
        _ => false,
    }
}

fn variant(a: &PutResult<u8, u8>) -> &'static str {
    match a {
        PutResult::Put => "Put",
        PutResult::Update(_) => "Update",
        PutResult::Evicted { .. } => "Evicted",
        PutResult::EvictedAndUpdate { .. } => "EvictedAndUpdate",
    }
}

pub fn put_result_structural() -> EngineReport {
    let mut rep = EngineReport { name: "putresult-structural-grid".into(), exhaustive: true, ..Default::default() };
    let vals = all_put_results();
    let mut bad = |check: &str, disc: String, detail: String| {
        rep.violations.push(Extra { finding: Finding::new("C12", check, disc, detail), case: json!({"engine": "putresult"}), count: 1 });
    };
    let mut evals = 0u64;
    for a in &vals {
        for b in &vals {
            evals += 1;
            let want = structural_eq(a, b);
            if (a == b) != want {
                bad("putresult_eq_is_structural", format!("{}=={}", variant(a), variant(b)), format!("{:?} == {:?} is {}, structurally {}", a, b, a == b, want));
            }
            if (a == b) != (b == a) {
                bad("putresult_eq_is_symmetric", format!("{}=={}", variant(a), variant(b)), format!("{:?} == {:?} differs from the swapped comparison", a, b));
            }
            if (a != b) == (a == b) {
                bad("putresult_ne_negates_eq", format!("{}=={}", variant(a), variant(b)), format!("{:?} vs {:?}: != is not the negation of ==", a, b));
            }
        }
        #[allow(clippy::clone_on_copy)]
        let c = a.clone();
        let d = *a;
        if !structural_eq(&c, a) || !structural_eq(&d, a) {
            bad("putresult_clone_preserves", variant(a).to_string(), format!("clone/copy of {:?} is {:?}/{:?}", a, c, d));
        }
        let dbg = format!("{:?}", a);
        if !dbg.contains(variant(a)) || (variant(a) == "Evicted" && dbg.contains("EvictedAndUpdate")) {
            bad("putresult_debug_names_variant", variant(a).to_string(), format!("Debug of a {} value prints {:?}", variant(a), dbg));
        }
    }
    // non-Copy payloads: Clone clones the payloads
    let s = PutResult::<String, String>::EvictedAndUpdate { evicted: ("k".into(), "v".into()), update: "u".into() };
    let s2 = s.clone();
    if s != s2 || format!("{:?}", s) != format!("{:?}", s2) {
        bad("putresult_clone_preserves", "String".into(), "clone of a String-payload PutResult differs".into());
    }
    evals += 1;
    rep.evaluations = evals;
    rep.distinct_nontrivial = vals.len() as u64;
    rep.samples = vec![json!({"engine": "putresult", "values": vals.len(), "pairs": vals.len() * vals.len(), "example": format!("{:?}", vals[7])})];
    rep.detail = json!({"values": vals.len(), "ordered_pairs": vals.len() * vals.len()});
    rep
}

// ------------------------------------------------------------------ C17: conversions with a hidden RandomState

/// `RawLRU::from(..)` / `collect()` build the cache with a fresh `RandomState` that the caller
/// cannot supply, so the hasher cannot be enumerated: the same conversion of an ordered source is
/// repeated under many fresh states and every repetition must produce the same recency order and
/// the same next eviction (statistical over the hidden seeds; stated as such in the evidence).
pub fn conversion_determinism(tier: Tier) -> EngineReport {
    let mut rep = EngineReport { name: "conversion-determinism (hidden RandomState, repeated)".into(), exhaustive: false, ..Default::default() };
    let reps = if tier == Tier::Thorough { 200 } else { 40 };
    type Obs = (Vec<u64>, Vec<u64>, String);
    fn observe(mut c: RawLRU<u64, u64>) -> Obs {
        let order: Vec<u64> = c.iter().map(|(k, _)| *k).collect();
        let lru: Vec<u64> = c.keys_lru().copied().collect();
        let r = format!("{:?}", c.put(1_000, 0));
        (order, lru, r)
    }
    let mut cases: Vec<(String, Box<dyn Fn() -> Obs>)> = vec![];
    for n in [2u64, 3, 4, 7] {
        let items: Vec<(u64, u64)> = (0..n).map(|i| (i * 7 % 11, i)).collect();
        let it = items.clone();
        cases.push((format!("RawLRU::from(Vec) {:?}", items), Box::new(move || observe(RawLRU::from(it.clone())))));
        let it = items.clone();
        cases.push((format!("RawLRU::from(&[..]) {:?}", items), Box::new(move || observe(RawLRU::from(&it[..])))));
        let it = items.clone();
        cases.push((format!("RawLRU::from(VecDeque) {:?}", items), Box::new(move || observe(RawLRU::from(it.iter().copied().collect::<VecDeque<_>>())))));
        let it = items.clone();
        cases.push((format!("RawLRU::from(LinkedList) {:?}", items), Box::new(move || observe(RawLRU::from(it.iter().copied().collect::<LinkedList<_>>())))));
        let it = items.clone();
        cases.push((format!("RawLRU::from(BTreeMap) {:?}", items), Box::new(move || observe(RawLRU::from(it.iter().copied().collect::<BTreeMap<_, _>>())))));
        let it = items.clone();
        cases.push((format!("RawLRU::from(BTreeSet) {:?}", items), Box::new(move || observe(RawLRU::from(it.iter().copied().collect::<BTreeSet<_>>())))));
        let it = items.clone();
        cases.push((format!("collect::<RawLRU>() {:?}", items), Box::new(move || observe(it.iter().copied().collect::<RawLRU<u64, u64>>()))));
    }
    cases.push(("RawLRU::from([(K,V); 3])".into(), Box::new(|| observe(RawLRU::from([(5u64, 0u64), (3, 1), (9, 2)])))));
    // the same for the caches whose constructors take no hasher: RandomState inside, behaviour must not show it
    cases.push((
        "TwoQueueCache::new(3): put 5,3,9,3,7,5 then order".into(),
        Box::new(|| {
            let mut c = TwoQueueCache::<u64, u64>::new(3).unwrap();
            let mut rs = vec![];
            for k in [5u64, 3, 9, 3, 7, 5, 1, 9] {
                rs.push(format!("{:?}", c.put(k, k)));
            }
            (c.recent_keys().copied().chain(c.frequent_keys().copied()).collect(), c.ghost_keys().copied().collect(), rs.join(","))
        }),
    ));
    cases.push((
        "AdaptiveCache::new(2): put 5,3,9,5,7,3 then order".into(),
        Box::new(|| {
            let mut c = AdaptiveCache::<u64, u64>::new(2).unwrap();
            let mut rs = vec![];
            for k in [5u64, 3, 9, 5, 7, 3, 9, 1] {
                rs.push(format!("{:?}", c.put(k, k)));
            }
            (c.recent_keys().copied().chain(c.frequent_keys().copied()).collect(), c.recent_evict_keys().copied().chain(c.frequent_evict_keys().copied()).collect(), rs.join(","))
        }),
    ));
    for (name, f) in &cases {
        let first = match catch_unwind(AssertUnwindSafe(|| f())) {
            Ok(o) => o,
            Err(_) => {
                let _ = crate::panics::take_last();
                continue; // panics are C05's business
            }
        };
        let mut distinct = 1;
        for _ in 1..reps {
            rep.evaluations += 1;
            if let Ok(o) = catch_unwind(AssertUnwindSafe(|| f())) {
                if o != first {
                    distinct += 1;
                    rep.violations.push(Extra {
                        finding: Finding::new("C17", "same_result_under_every_hidden_hash_state", name.split('(').next().unwrap_or("").to_string(), format!("{} gave {:?} once and {:?} another time (fresh RandomState each time)", name, first, o)),
                        case: json!({"engine": "conversions", "case": name}),
                        count: 1,
                    });
                    break;
                }
            }
        }
        let _ = distinct;
        rep.states += 1;
    }
    rep.distinct_nontrivial = cases.len() as u64;
    rep.transitions = rep.evaluations;
    rep.samples = vec![json!({"engine": "conversions", "case": cases[0].0, "repetitions": reps})];
    rep.capped = Some(format!("{} repetitions per case: the RandomState of these constructors cannot be supplied, so its seeds are sampled, not enumerated", reps));
    rep.detail = json!({"cases": cases.len(), "repetitions_per_case": reps});
    rep
}

// ------------------------------------------------------------------ C17: larger capacities (hash-table growth, tombstones)

#[derive(Clone, Copy, Debug, serde::Serialize, serde::Deserialize, PartialEq)]
pub enum ChurnOp {
    /// put a key that was never used before
    PutFresh,
    /// remove(&k) of the least / most recently used resident key (by lookup, not remove_lru)
    RemoveOldest,
    RemoveNewest,
    /// get(&k) of the least recently used resident key
    GetOldest,
}

trait ChurnCache {
    fn put(&mut self, k: u64) -> String;
    fn oldest(&self) -> Option<u64>;
    fn newest(&self) -> Option<u64>;
    fn remove(&mut self, k: u64) -> String;
    fn get(&mut self, k: u64) -> String;
    fn order(&self) -> Vec<u64>;
}

impl ChurnCache for RawLRU<u64, u64, DefaultEvictCallback, HB> {
    fn put(&mut self, k: u64) -> String {
        format!("{:?}", Cache::put(self, k, k))
    }
    fn oldest(&self) -> Option<u64> {
        self.peek_lru().map(|(k, _)| *k)
    }
    fn newest(&self) -> Option<u64> {
        self.peek_mru().map(|(k, _)| *k)
    }
    fn remove(&mut self, k: u64) -> String {
        format!("{:?}", Cache::remove(self, &k))
    }
    fn get(&mut self, k: u64) -> String {
        format!("{:?}", Cache::get(self, &k).copied())
    }
    fn order(&self) -> Vec<u64> {
        self.keys().copied().collect()
    }
}

impl ChurnCache for TwoQueueCache<u64, u64, HB, HB, HB> {
    fn put(&mut self, k: u64) -> String {
        format!("{:?}", Cache::put(self, k, k))
    }
    fn oldest(&self) -> Option<u64> {
        self.recent_keys_lru().next().or_else(|| self.frequent_keys_lru().next()).copied()
    }
    fn newest(&self) -> Option<u64> {
        self.recent_keys().next().or_else(|| self.frequent_keys().next()).copied()
    }
    fn remove(&mut self, k: u64) -> String {
        format!("{:?}", Cache::remove(self, &k))
    }
    fn get(&mut self, k: u64) -> String {
        format!("{:?}", Cache::get(self, &k).copied())
    }
    fn order(&self) -> Vec<u64> {
        self.recent_keys().copied().chain([u64::MAX]).chain(self.frequent_keys().copied()).chain([u64::MAX]).chain(self.ghost_keys().copied()).collect()
    }
}

impl ChurnCache for AdaptiveCache<u64, u64, HB, HB, HB, HB> {
    fn put(&mut self, k: u64) -> String {
        format!("{:?}", Cache::put(self, k, k))
    }
    fn oldest(&self) -> Option<u64> {
        self.recent_keys_lru().next().or_else(|| self.frequent_keys_lru().next()).copied()
    }
    fn newest(&self) -> Option<u64> {
        self.recent_keys().next().or_else(|| self.frequent_keys().next()).copied()
    }
    fn remove(&mut self, k: u64) -> String {
        format!("{:?}", Cache::remove(self, &k))
    }
    fn get(&mut self, k: u64) -> String {
        format!("{:?}", Cache::get(self, &k).copied())
    }
    fn order(&self) -> Vec<u64> {
        self.recent_keys()
            .copied()
            .chain([u64::MAX])
            .chain(self.frequent_keys().copied())
            .chain([u64::MAX])
            .chain(self.recent_evict_keys().copied())
            .chain([u64::MAX])
            .chain(self.frequent_evict_keys().copied())
            .chain([self.partition() as u64])
            .collect()
    }
}

impl ChurnCache for SegmentedCache<u64, u64, HB, HB> {
    fn put(&mut self, k: u64) -> String {
        format!("{:?}", Cache::put(self, k, k))
    }
    fn oldest(&self) -> Option<u64> {
        self.verif_probationary().peek_lru().or_else(|| self.verif_protected().peek_lru()).map(|(k, _)| *k)
    }
    fn newest(&self) -> Option<u64> {
        self.verif_probationary().peek_mru().or_else(|| self.verif_protected().peek_mru()).map(|(k, _)| *k)
    }
    fn remove(&mut self, k: u64) -> String {
        format!("{:?}", Cache::remove(self, &k))
    }
    fn get(&mut self, k: u64) -> String {
        format!("{:?}", Cache::get(self, &k).copied())
    }
    fn order(&self) -> Vec<u64> {
        self.verif_probationary().keys().copied().chain([u64::MAX]).chain(self.verif_protected().keys().copied()).collect()
    }
}

fn churn_build(kind: u8, cap: usize, h: HKind) -> Box<dyn ChurnCache> {
    let hb = || HB::new(h);
    match kind {
        0 => Box::new(RawLRU::<u64, u64, DefaultEvictCallback, HB>::with_hasher(cap, hb()).unwrap()),
        1 => Box::new(TwoQueueCacheBuilder::new(cap).set_recent_hasher(hb()).set_frequent_hasher(hb()).set_ghost_hasher(hb()).finalize::<u64, u64>().unwrap()),
        2 => Box::new(AdaptiveCacheBuilder::new(cap).set_recent_hasher(hb()).set_frequent_hasher(hb()).set_recent_evict_hasher(hb()).set_frequent_evict_hasher(hb()).finalize::<u64, u64>().unwrap()),
        _ => Box::new(SegmentedCacheBuilder::new(cap, cap).set_probationary_hasher(hb()).set_protected_hasher(hb()).finalize::<u64, u64>().unwrap()),
    }
}

const CHURN_KINDS: [&str; 4] = ["RawLRU", "TwoQueueCache", "AdaptiveCache", "SegmentedCache"];

/// Small capacities never make the hash index grow in place, leave tombstones or run out of spare
/// slots; those effects need tables of >= 32 buckets. This engine starts from a *pre-filled* cache of
/// capacity 16..40 and explores all sequences of a relative alphabet (states merge on the key order,
/// which keeps the space polynomial), in lock-step under six hashers.
pub fn churn(tier: Tier) -> EngineReport {
    let mut rep = EngineReport { name: "large-capacity churn in lock-step under six hashers".into(), exhaustive: true, ..Default::default() };
    let kinds = [HKind::SipA, HKind::Identity, HKind::Zero, HKind::Fnv, HKind::SipB, HKind::Random];
    let two = vec![ChurnOp::PutFresh, ChurnOp::RemoveOldest];
    let three = vec![ChurnOp::PutFresh, ChurnOp::RemoveOldest, ChurnOp::RemoveNewest];
    let with_get = vec![ChurnOp::PutFresh, ChurnOp::RemoveOldest, ChurnOp::GetOldest];
    // (cache type, capacity, depth, alphabet)
    let menu: Vec<(u8, usize, usize, Vec<ChurnOp>)> = if tier == Tier::Thorough {
        vec![
            (0, 16, 30, three.clone()),
            (0, 20, 30, three.clone()),
            (0, 33, 30, two.clone()),
            (0, 20, 14, vec![ChurnOp::PutFresh, ChurnOp::RemoveOldest, ChurnOp::RemoveNewest, ChurnOp::GetOldest]),
            (1, 16, 30, two.clone()),
            (1, 16, 18, with_get.clone()),
            (2, 16, 30, two.clone()),
            (2, 16, 16, with_get.clone()),
            (3, 16, 30, two.clone()),
            (3, 16, 16, with_get.clone()),
        ]
    } else {
        vec![(0, 20, 26, two.clone()), (0, 16, 16, three.clone()), (1, 16, 26, two.clone()), (2, 16, 26, two.clone()), (3, 16, 26, two.clone()), (1, 16, 12, with_get.clone())]
    };
    let mut details = vec![];
    for (ck, cap, depth, ops) in menu {
        let eval = move |hist: &[ChurnOp]| -> crate::lfu::EvalOut {
            let mut out = crate::lfu::EvalOut { key: None, findings: vec![], nontrivial: false };
            let r = catch_unwind(AssertUnwindSafe(|| {
                let mut caches: Vec<Box<dyn ChurnCache>> = kinds.iter().map(|k| churn_build(ck, cap, *k)).collect();
                for c in caches.iter_mut() {
                    for k in 0..cap as u64 {
                        c.put(k);
                    }
                }
                let mut next = cap as u64;
                let mut problem: Option<String> = None;
                for (i, op) in hist.iter().enumerate() {
                    let mut rets: Vec<String> = vec![];
                    for c in caches.iter_mut() {
                        let r = match op {
                            ChurnOp::PutFresh => c.put(next),
                            ChurnOp::RemoveOldest => c.oldest().map(|k| c.remove(k)).unwrap_or_default(),
                            ChurnOp::RemoveNewest => c.newest().map(|k| c.remove(k)).unwrap_or_default(),
                            ChurnOp::GetOldest => c.oldest().map(|k| c.get(k)).unwrap_or_default(),
                        };
                        rets.push(r);
                    }
                    if *op == ChurnOp::PutFresh {
                        next += 1;
                    }
                    let orders: Vec<Vec<u64>> = caches.iter().map(|c| c.order()).collect();
                    for j in 1..caches.len() {
                        if problem.is_none() && (rets[j] != rets[0] || orders[j] != orders[0]) {
                            problem = Some(format!(
                                "{} of capacity {}, pre-filled with 0..{}, after {:?}: step {} ({:?}) returns {} and leaves {:?} under {:?}, but {} and {:?} under {:?}",
                                CHURN_KINDS[ck as usize], cap, cap, &hist[..=i], i, op, rets[0], orders[0], kinds[0], rets[j], orders[j], kinds[j]
                            ));
                        }
                    }
                }
                (caches[0].order(), next, problem)
            }));
            match r {
                Ok((order, next, problem)) => {
                    if let Some(p) = problem {
                        out.findings.push(Finding::new("C17", "same_behaviour_at_larger_capacities", format!("{}/cap{}", CHURN_KINDS[ck as usize], cap), p));
                    }
                    let mut key: Vec<u8> = vec![];
                    for k in &order {
                        key.extend_from_slice(&(*k as u16).to_le_bytes());
                    }
                    key.extend_from_slice(&(next as u16).to_le_bytes());
                    out.nontrivial = true;
                    out.key = Some(key);
                }
                Err(_) => {
                    let _ = crate::panics::take_last(); // a panic is C05's business
                }
            }
            out
        };
        let res = crate::lfu::bfs(&ops, if tier == Tier::Thorough { 400_000 } else { 60_000 }, depth, &eval);
        rep.states += res.states;
        rep.transitions += res.evals;
        rep.evaluations += res.evals;
        rep.distinct_nontrivial += res.nontrivial.min(res.states);
        if !res.closed {
            rep.exhaustive = false;
        }
        details.push(json!({"cache": CHURN_KINDS[ck as usize], "capacity": cap, "alphabet": format!("{:?}", ops), "depth": res.max_depth, "states": res.states, "executions": res.evals, "closed": res.closed, "capped": res.capped, "hashers": format!("{:?}", kinds)}));
        if let Some(h) = res.sample.first() {
            rep.samples.push(json!({"engine": "churn", "cache": CHURN_KINDS[ck as usize], "capacity": cap, "history": format!("{:?}", h)}));
        }
        for (f, h) in res.findings.into_iter().take(3) {
            rep.violations.push(Extra { finding: f, case: json!({"engine": "churn", "cache": ck, "capacity": cap, "history": h}), count: 1 });
        }
    }
    rep.capped = if rep.exhaustive { None } else { Some("depth-bounded (all sequences of the relative alphabet up to the stated depth)".into()) };
    rep.detail = json!(details);
    rep
}
