//! The generic part of an execution: build a fresh real cache, replay a history, run one more
//! operation (or the observers), and hand plain data to the (non-generic) engine and oracles.
use crate::ops::*;
use crate::subjects::*;
use crate::track::{self, KeyT, ValT};
use crate::{alloc, panics};
use std::marker::PhantomData;
use std::panic::{catch_unwind, AssertUnwindSafe};

#[derive(Clone, Debug, Default)]
pub struct Wants {
    pub observers: bool,
    pub iters: bool,
    pub clone_check: bool,
    pub track_alloc: bool,
    pub probe: bool,
    /// ops for the clone bisimulation (mutators + observers)
    pub clone_ops: Vec<Op>,
}

#[derive(Clone, Debug, Default)]
pub struct AuditRes {
    pub dangling: Vec<String>,
    pub structural: Vec<String>,
    /// per inner list: (name, node addresses registered in the index, node addresses linked in the chain)
    pub owners: Vec<(String, Vec<usize>, Vec<usize>)>,
}

#[derive(Clone, Debug, Default)]
pub struct ExecReport {
    pub alloc_errors: Vec<String>,
    pub leaked_blocks: usize,
    pub leaked_sizes: Vec<usize>,
    pub serial_errors: Vec<String>,
    pub live_serials_after_drop: usize,
    /// serial conservation: live tracked objects != objects held by the cache
    pub conservation: Option<String>,
    /// panic while dropping the cache
    pub drop_panic: Option<String>,
    /// replay of the history itself panicked / diverged
    pub replay_error: Option<String>,
    pub allocs: u64,
}

#[derive(Clone, Debug, Default)]
pub struct Probe {
    /// W-TinyLFU: estimate of every alphabet key read from the real estimator
    pub estimates: Vec<u64>,
    /// W-TinyLFU: for every key, the acceptable estimator states after one recorded access
    pub est_after_access: Vec<Vec<EstSnap>>,
}

#[derive(Clone, Debug, Default)]
pub struct StateRes {
    pub snap: Option<Snap>,
    pub audit: AuditRes,
    pub obs: Vec<(Op, Ret)>,
    pub snap_after_obs: Option<Snap>,
    pub audit_after_obs: AuditRes,
    pub probe: Probe,
    pub iter_runs: u64,
    pub iter_problems: Vec<String>,
    pub snap_after_iters: Option<Snap>,
    pub clone: Option<CloneRes>,
    pub exec: ExecReport,
    /// findings produced by a wrapping driver (lock-step legs of C17)
    pub extra: Vec<crate::oracle::Finding>,
}

#[derive(Clone, Debug, Default)]
pub struct CloneRes {
    /// problems found by the clone bisimulation / independence check
    pub problems: Vec<String>,
    pub steps: u64,
}

#[derive(Clone, Debug, Default)]
pub struct TransRes {
    pub ret: Option<Ret>,
    pub post: Option<Snap>,
    pub audit: AuditRes,
    pub cb_log: Vec<Ent>,
    pub out_serials: Vec<u32>,
    pub exec: ExecReport,
    pub extra: Vec<crate::oracle::Finding>,
    /// C14: iterator words run on the concrete post-state of the transition
    pub iter_runs: u64,
    pub iter_problems: Vec<String>,
    /// the observer battery run on the concrete object this transition produced (not only on the
    /// representative history of its abstract state), and the snapshot afterwards
    pub post_obs: Vec<(Op, Ret)>,
    pub post_after_obs: Option<Snap>,
}

pub trait Driver: Sync + Send {
    fn cfg(&self) -> &Cfg;
    fn state(&self, hist: &[Op], want: &Wants) -> StateRes;
    fn trans(&self, hist: &[Op], op: Op, want: &Wants) -> TransRes;
    /// how many executions of the real code one `state`/`trans` call stands for (lock-step legs)
    fn legs(&self) -> u64 {
        1
    }
}

pub struct SubjDriver<S> {
    pub cfg: Cfg,
    _p: PhantomData<fn() -> S>,
}

impl<S> SubjDriver<S> {
    pub fn new(cfg: Cfg) -> Self {
        SubjDriver { cfg, _p: PhantomData }
    }
}

fn audit_of<S: Subject>(c: &S) -> AuditRes {
    let mut r = AuditRes::default();
    match catch_unwind(AssertUnwindSafe(|| c.audit(true))) {
        Ok(l) => {
            for (name, a) in l {
                r.owners.push((name.to_string(), a.index_nodes.clone(), a.linked_nodes.clone()));
                for d in a.dangling {
                    r.dangling.push(format!("{}: {}", name, d));
                }
                for s in a.structural {
                    r.structural.push(format!("{}: {}", name, s));
                }
            }
        }
        Err(_) => r.structural.push(format!("audit panicked: {}", panics::take_last())),
    }
    alloc::untracked(|| r.clone())
}

fn apply_caught<S: Subject>(c: &mut S, op: Op, out: &mut Vec<u32>) -> Ret {
    let r = match catch_unwind(AssertUnwindSafe(|| c.apply(op, out))) {
        Ok(r) => r,
        Err(_) => Ret::Panic(panics::take_last()),
    };
    // results outlive the execution: keep an untracked copy, drop the tracked one here
    alloc::untracked(|| r.clone())
}

fn snap_of<S: Subject>(c: &S) -> Snap {
    let s = c.snapshot();
    alloc::untracked(|| s.clone_full())
}

/// digest of the structural audit's complaints (0 = well-formed); see `Snap.shape`
fn shape_of(a: &AuditRes) -> u64 {
    if a.structural.is_empty() {
        return 0;
    }
    let mut h: u64 = 0xcbf2_9ce4_8422_2325;
    for s in &a.structural {
        for b in s.bytes().chain([0u8]) {
            h ^= b as u64;
            h = h.wrapping_mul(0x0000_0100_0000_01b3);
        }
    }
    h | 1
}

fn snap_shaped<S: Subject>(c: &S, a: &AuditRes) -> Snap {
    let mut s = snap_of(c);
    s.shape = shape_of(a);
    s
}

impl Snap {
    pub fn clone_full(&self) -> Snap {
        let mut s = self.clone();
        s.serials = self.serials.clone();
        s
    }
}

thread_local! {
    static NOISE: std::cell::RefCell<Vec<Vec<u8>>> = const { std::cell::RefCell::new(Vec::new()) };
}

/// Address noise (Cfg.addr_noise): unrelated blocks of node-like sizes are allocated and some freed
/// again, outside the registry's accounting, so that the cache's own allocations land elsewhere.
fn noise(level: u8, i: usize) {
    if level == 0 {
        return;
    }
    alloc::untracked(|| {
        NOISE.with(|n| {
            let mut n = n.borrow_mut();
            let l = level as usize;
            let k = (i * 7 + l * 3) % 5 + 1;
            for j in 0..k {
                n.push(Vec::with_capacity([24usize, 56, 72, 40, 128, 16, 96][(i + j + l) % 7]));
            }
            if (i + l) % 2 == 0 && n.len() > 3 {
                let len = n.len();
                n.swap_remove(len / 2);
                n.swap_remove(0);
            }
        })
    });
}

fn begin(want: &Wants) {
    alloc::untracked(|| NOISE.with(|n| n.borrow_mut().clear()));
    let _ = take_cb_log();
    let _ = panics::take_last();
    if want.track_alloc {
        alloc::begin();
    }
    track::begin();
}

fn finish(want: &Wants, exec: &mut ExecReport) {
    exec.serial_errors = track::take_errors();
    exec.live_serials_after_drop = track::live_serials().len();
    if want.track_alloc {
        let rep = alloc::end();
        exec.alloc_errors = rep.errors;
        exec.leaked_blocks = rep.leaked_blocks;
        exec.leaked_sizes = rep.leaked_sizes;
        exec.allocs = rep.allocs;
    }
}

/// build + replay; Err = the history could not be replayed
fn replay<S: Subject>(cfg: &Cfg, hist: &[Op]) -> Result<S, String> {
    noise(cfg.addr_noise, 0);
    let mut c = S::build(cfg)?;
    let mut out = Vec::new();
    for (i, h) in hist.iter().enumerate() {
        noise(cfg.addr_noise, i + 1);
        match catch_unwind(AssertUnwindSafe(|| c.apply(*h, &mut out))) {
            Ok(Ret::NotApplicable) => return Err(format!("history step {} ({:?}) is not applicable to {:?}", i, h, cfg.kind)),
            Ok(_) => {}
            Err(_) => {
                let m = panics::take_last();
                std::mem::forget(c);
                return Err(format!("history step {} ({:?}) panicked during replay: {}", i, h, m));
            }
        }
    }
    Ok(c)
}

fn conservation(snap: &Snap) -> Option<String> {
    let mut held = snap.serials.clone();
    held.sort_unstable();
    let dup = held.windows(2).any(|w| w[0] == w[1]);
    let live = track::live_serials();
    if dup {
        return Some(format!("the same tracked object is held twice by the cache (serials {:?})", held));
    }
    if held != live {
        let leaked: Vec<u32> = live.iter().copied().filter(|s| !held.contains(s)).collect();
        let dead: Vec<u32> = held.iter().copied().filter(|s| !live.contains(s)).collect();
        return Some(alloc::untracked(|| {
            format!(
                "{} tracked object(s) are alive but neither held by the cache nor handed back; {} held object(s) are already dropped",
                leaked.len(),
                dead.len()
            )
        }));
    }
    None
}

fn drop_caught<S>(c: S, exec: &mut ExecReport) {
    if catch_unwind(AssertUnwindSafe(move || drop(c))).is_err() {
        exec.drop_panic = Some(panics::take_last());
    }
}

impl<S: Subject> SubjDriver<S> {
    fn clone_check(&self, c: &S, hist: &[Op], base: &Snap, want: &Wants) -> CloneRes {
        let mut res = CloneRes::default();
        let mut bad = |s: String| {
            alloc::untracked(|| {
                if res.problems.len() < 6 {
                    res.problems.push(s.clone());
                }
            })
        };
        // 1. identical at the moment of cloning
        let c2 = match catch_unwind(AssertUnwindSafe(|| c.try_clone())) {
            Ok(Some(c2)) => c2,
            Ok(None) => return res,
            Err(_) => {
                bad(format!("clone() panicked: {}", panics::take_last()));
                return res;
            }
        };
        let a2 = audit_of(&c2);
        if !a2.dangling.is_empty() || !a2.structural.is_empty() {
            bad(format!("clone fails the structural audit: {:?} {:?}", a2.dangling, a2.structural));
            std::mem::forget(c2);
            return res;
        }
        let s2 = snap_of(&c2);
        if s2.canon() != base.canon() {
            bad(format!("clone differs from the original at the moment of cloning: original {} / clone {}", crate::oracle::show(&self.cfg, base), crate::oracle::show(&self.cfg, &s2)));
        }
        let shared: Vec<u32> = s2.serials.iter().copied().filter(|s| base.serials.contains(s)).collect();
        if !shared.is_empty() {
            bad(format!("clone shares {} key/value object(s) with the original", shared.len()));
        }
        drop(c2);
        // 1b. clone_from onto a differently configured, non-empty destination gives the same object
        match catch_unwind(AssertUnwindSafe(|| c.clone_from_onto(&self.cfg))) {
            Ok(Some(c3)) => {
                let a3 = audit_of(&c3);
                let s3 = snap_of(&c3);
                if s3.canon() != base.canon() || !a3.dangling.is_empty() || !a3.structural.is_empty() {
                    bad(format!("clone_from onto another cache gives {} instead of {} ({:?})", crate::oracle::show(&self.cfg, &s3), crate::oracle::show(&self.cfg, base), a3.structural));
                }
                drop(c3);
            }
            Ok(None) => {}
            Err(_) => bad(format!("clone_from panicked: {}", panics::take_last())),
        }
        // 2. one-step bisimulation for every operation: fresh original vs fresh clone
        for op in &want.clone_ops {
            res.steps += 1;
            let mut o = match replay::<S>(&self.cfg, hist) {
                Ok(o) => o,
                Err(e) => {
                    bad(format!("replay failed: {}", e));
                    break;
                }
            };
            let mut k = match o.try_clone() {
                Some(k) => k,
                None => break,
            };
            let mut out = Vec::new();
            let _ = take_cb_log();
            let r1 = apply_caught(&mut o, *op, &mut out);
            let cb1 = take_cb_log();
            let r2 = apply_caught(&mut k, *op, &mut out);
            let cb2 = take_cb_log();
            if cb1 != cb2 {
                bad(format!("after cloning, {:?} makes the original's eviction callback see {:?} but the clone's {:?}", op, cb1, cb2));
            }
            let so = snap_of(&o);
            let sk = snap_of(&k);
            if r1 != r2 {
                bad(format!("after cloning, {:?} returns {:?} on the original but {:?} on the clone", op, r1, r2));
            } else if so.canon() != sk.canon() {
                bad(format!("after cloning, {:?} leaves the original as {} but the clone as {}", op, crate::oracle::show(&self.cfg, &so), crate::oracle::show(&self.cfg, &sk)));
            }
            // 3. independence: mutate/drop one, the other is unaffected
            let before = snap_of(&k);
            let _ = apply_caught(&mut o, Op::Purge, &mut out);
            drop(o);
            let ak = audit_of(&k);
            let after = snap_of(&k);
            if before.canon() != after.canon() || !ak.dangling.is_empty() || !ak.structural.is_empty() {
                bad(format!("purging and dropping the original changed or corrupted the clone ({:?} {:?})", ak.dangling, ak.structural));
            }
            drop(k);
        }
        res
    }
}

impl<S: Subject> Driver for SubjDriver<S> {
    fn cfg(&self) -> &Cfg {
        &self.cfg
    }

    fn state(&self, hist: &[Op], want: &Wants) -> StateRes {
        let mut res = StateRes::default();
        begin(want);
        {
            match replay::<S>(&self.cfg, hist) {
                Err(e) => res.exec.replay_error = Some(alloc::untracked(|| e.clone())),
                Ok(mut c) => {
                    res.audit = audit_of(&c);
                    if res.audit.dangling.is_empty() {
                        let s0 = snap_shaped(&c, &res.audit);
                        if want.probe {
                            let p = c.probe(&self.cfg);
                            res.probe = alloc::untracked(|| p.clone());
                        }
                        if want.observers {
                            let mut out = Vec::new();
                            for op in observers(&self.cfg) {
                                let r = apply_caught(&mut c, op, &mut out);
                                alloc::untracked(|| res.obs.push((op, r)));
                            }
                            res.audit_after_obs = audit_of(&c);
                            if res.audit_after_obs.dangling.is_empty() {
                                res.snap_after_obs = Some(snap_shaped(&c, &res.audit_after_obs));
                            }
                        }
                        if want.iters && res.audit_after_obs.dangling.is_empty() {
                            match catch_unwind(AssertUnwindSafe(|| c.iter_check(&s0, 2))) {
                                Ok((n, p)) => {
                                    res.iter_runs = n;
                                    res.iter_problems = alloc::untracked(|| p.clone());
                                }
                                Err(_) => res.iter_problems = alloc::untracked(|| vec![format!("iterator check panicked: {}", panics::take_last())]),
                            }
                            let a3 = audit_of(&c);
                            if a3.dangling.is_empty() {
                                res.snap_after_iters = Some(snap_shaped(&c, &a3));
                            }
                        }
                        res.exec.conservation = conservation(&snap_of(&c));
                        drop_caught(c, &mut res.exec);
                        if want.clone_check {
                            if let Ok(c0) = replay::<S>(&self.cfg, hist) {
                                let cr = self.clone_check(&c0, hist, &s0, want);
                                drop(c0);
                                res.clone = Some(cr);
                            }
                        }
                        res.snap = Some(s0);
                    } else {
                        std::mem::forget(c); // dangling nodes: dropping would touch freed memory
                    }
                }
            }
        }
        finish(want, &mut res.exec);
        res
    }

    fn trans(&self, hist: &[Op], op: Op, want: &Wants) -> TransRes {
        let mut res = TransRes::default();
        begin(want);
        {
            match replay::<S>(&self.cfg, hist) {
                Err(e) => res.exec.replay_error = Some(alloc::untracked(|| e.clone())),
                Ok(mut c) => {
                    let _ = take_cb_log();
                    let mut out = Vec::new();
                    noise(self.cfg.addr_noise, hist.len() + 1);
                    let ret = apply_caught(&mut c, op, &mut out);
                    res.cb_log = take_cb_log();
                    res.out_serials = alloc::untracked(|| out.clone());
                    drop(out);
                    res.audit = audit_of(&c);
                    let panicked = matches!(ret, Ret::Panic(_));
                    res.ret = Some(ret);
                    if res.audit.dangling.is_empty() {
                        let post = snap_shaped(&c, &res.audit);
                        if !panicked {
                            res.exec.conservation = conservation(&post);
                        }
                        if want.observers && !panicked && res.audit.structural.is_empty() {
                            let mut out2 = Vec::new();
                            for op in observers(&self.cfg) {
                                if matches!(op, Op::Iters) {
                                    continue; // the iterator families have their own per-transition run (C14)
                                }
                                let r = apply_caught(&mut c, op, &mut out2);
                                alloc::untracked(|| res.post_obs.push((op, r)));
                            }
                            drop(out2);
                            let a2 = audit_of(&c);
                            if a2.dangling.is_empty() {
                                res.post_after_obs = Some(snap_shaped(&c, &a2));
                            }
                        }
                        if want.iters && !panicked && res.audit.structural.is_empty() {
                            // the concrete object reached by this very transition (not only the state's
                            // representative history): a mis-linked list can hide behind an unchanged snapshot
                            match catch_unwind(AssertUnwindSafe(|| c.iter_check(&post, 1))) {
                                Ok((n, p)) => {
                                    res.iter_runs = n;
                                    res.iter_problems = alloc::untracked(|| p.clone());
                                }
                                Err(_) => res.iter_problems = alloc::untracked(|| vec![format!("iterator check panicked: {}", panics::take_last())]),
                            }
                        }
                        res.post = Some(post);
                        drop_caught(c, &mut res.exec);
                    } else {
                        std::mem::forget(c);
                    }
                }
            }
        }
        finish(want, &mut res.exec);
        res
    }
}

pub fn make_driver(cfg: &Cfg) -> Box<dyn Driver> {
    use crate::track::{PV, TK, TV};
    if cfg.builder_path >= 2 {
        // constructors without a hasher argument (DefaultHashBuilder inside)
        type D = caches::DefaultHashBuilder;
        match cfg.kind {
            Kind::Slru => return Box::new(SubjDriver::<SlruSubj<u64, PV, D>>::new(cfg.clone())),
            Kind::TwoQ => return Box::new(SubjDriver::<TwoQSubj<u64, PV, D>>::new(cfg.clone())),
            Kind::Arc => return Box::new(SubjDriver::<ArcSubj<u64, PV, D>>::new(cfg.clone())),
            _ => {}
        }
    }
    match (cfg.kind, cfg.key_ty) {
        (Kind::Raw, KeyTy::U64) => Box::new(SubjDriver::<RawSubj<u64, PV>>::new(cfg.clone())),
        (Kind::Raw, KeyTy::Tracked) => Box::new(SubjDriver::<RawSubj<TK, TV>>::new(cfg.clone())),
        (Kind::Slru, KeyTy::U64) => Box::new(SubjDriver::<SlruSubj<u64, PV>>::new(cfg.clone())),
        (Kind::Slru, KeyTy::Tracked) => Box::new(SubjDriver::<SlruSubj<TK, TV>>::new(cfg.clone())),
        (Kind::TwoQ, KeyTy::U64) => Box::new(SubjDriver::<TwoQSubj<u64, PV>>::new(cfg.clone())),
        (Kind::TwoQ, KeyTy::Tracked) => Box::new(SubjDriver::<TwoQSubj<TK, TV>>::new(cfg.clone())),
        (Kind::Arc, KeyTy::U64) => Box::new(SubjDriver::<ArcSubj<u64, PV>>::new(cfg.clone())),
        (Kind::Arc, KeyTy::Tracked) => Box::new(SubjDriver::<ArcSubj<TK, TV>>::new(cfg.clone())),
        (Kind::Wtlfu, KeyTy::U64) => Box::new(SubjDriver::<WtlfuSubj<u64, PV>>::new(cfg.clone())),
        (Kind::Wtlfu, KeyTy::Tracked) => Box::new(SubjDriver::<WtlfuSubj<TK, TV>>::new(cfg.clone())),
        (Kind::Raw, KeyTy::TrackedKeys) => Box::new(SubjDriver::<RawSubj<TK, PV>>::new(cfg.clone())),
        (Kind::Raw, KeyTy::TrackedVals) => Box::new(SubjDriver::<RawSubj<u64, TV>>::new(cfg.clone())),
        (Kind::TwoQ, KeyTy::TrackedKeys) => Box::new(SubjDriver::<TwoQSubj<TK, PV>>::new(cfg.clone())),
        (Kind::TwoQ, KeyTy::TrackedVals) => Box::new(SubjDriver::<TwoQSubj<u64, TV>>::new(cfg.clone())),
        (Kind::Arc, KeyTy::TrackedKeys) => Box::new(SubjDriver::<ArcSubj<TK, PV>>::new(cfg.clone())),
        (Kind::Arc, KeyTy::TrackedVals) => Box::new(SubjDriver::<ArcSubj<u64, TV>>::new(cfg.clone())),
        // the segmented and W-TinyLFU caches release everything through RawLRU's code paths
        (_, KeyTy::TrackedKeys) => Box::new(SubjDriver::<SlruSubj<TK, PV>>::new(cfg.clone())),
        (_, KeyTy::TrackedVals) => Box::new(SubjDriver::<SlruSubj<u64, TV>>::new(cfg.clone())),
    }
}

#[allow(dead_code)]
fn _assert_bounds<K: KeyT, V: ValT>() {}

/// C17: the same history under several BuildHashers in lock-step. The first driver defines the
/// state space; every other leg must return the same values and reach the same abstract state
/// on every transition and every observer call.
pub struct MultiDriver {
    pub base: Box<dyn Driver>,
    pub legs: Vec<(String, Box<dyn Driver>)>,
}

impl MultiDriver {
    pub fn new(cfg: &Cfg, hashers: &[crate::hashers::HKind]) -> MultiDriver {
        let base = make_driver(cfg);
        let mut legs: Vec<(String, Box<dyn Driver>)> = hashers
            .iter()
            .map(|h| {
                let mut c = cfg.clone();
                c.hasher = *h;
                c.mixed_hashers = false;
                (format!("{:?}", h), make_driver(&c))
            })
            .collect();
        if cfg.kind == Kind::Wtlfu && cfg.no_estimator_ops {
            // no access is ever recorded, so every estimate is 0 whatever the KeyHasher maps keys to:
            // identical verdicts, hence identical structure
            for kh in [crate::hashers::KHKind::Identity, crate::hashers::KHKind::Spread, crate::hashers::KHKind::Constant] {
                if kh != cfg.kh {
                    let mut c = cfg.clone();
                    c.kh = kh;
                    legs.push((format!("KeyHasher {:?}", kh), make_driver(&c)));
                }
            }
        }
        if hashers.len() > 1 && cfg.addr_noise == 0 {
            // same hasher, different heap layout: every node (and every table) at another address
            for level in [1u8, 2] {
                let mut c = cfg.clone();
                c.addr_noise = level;
                legs.push((format!("{:?} with the heap laid out differently (pattern {})", cfg.hasher, level), make_driver(&c)));
            }
        }
        MultiDriver { base, legs }
    }
}

impl Driver for MultiDriver {
    fn cfg(&self) -> &Cfg {
        self.base.cfg()
    }
    fn legs(&self) -> u64 {
        1 + self.legs.len() as u64
    }
    fn state(&self, hist: &[Op], want: &Wants) -> StateRes {
        let mut r = self.base.state(hist, want);
        let cfg = self.base.cfg();
        for (name, leg) in &self.legs {
            let o = leg.state(hist, want);
            let (a, b) = (r.snap.as_ref().map(|s| s.canon()), o.snap.as_ref().map(|s| s.canon()));
            if a != b {
                r.extra.push(crate::oracle::Finding::new(
                    "C17",
                    "same_state_under_every_hasher",
                    format!("{:?}", cfg.kind),
                    format!(
                        "after the same history the cache is {} under {:?}{} but {} under {}",
                        r.snap.as_ref().map(|s| crate::oracle::show(cfg, s)).unwrap_or_default(),
                        cfg.hasher,
                        if cfg.mixed_hashers { "(mixed per list)" } else { "" },
                        o.snap.as_ref().map(|s| crate::oracle::show(cfg, s)).unwrap_or_default(),
                        name
                    ),
                ));
            } else if r.obs != o.obs {
                let d = r.obs.iter().zip(o.obs.iter()).find(|(x, y)| x != y);
                r.extra.push(crate::oracle::Finding::new(
                    "C17",
                    "same_observations_under_every_hasher",
                    format!("{:?}", cfg.kind),
                    format!("read-only call differs between {:?} and {}: {:?}", cfg.hasher, name, d),
                ));
            }
        }
        r
    }
    fn trans(&self, hist: &[Op], op: Op, want: &Wants) -> TransRes {
        let mut r = self.base.trans(hist, op, want);
        let cfg = self.base.cfg();
        for (name, leg) in &self.legs {
            let o = leg.trans(hist, op, want);
            let (a, b) = (r.post.as_ref().map(|s| s.canon()), o.post.as_ref().map(|s| s.canon()));
            if r.ret != o.ret || a != b || r.cb_log != o.cb_log {
                r.extra.push(crate::oracle::Finding::new(
                    "C17",
                    "same_transition_under_every_hasher",
                    format!("{:?}/{}", cfg.kind, crate::oracle::op_name(&op)),
                    format!(
                        "{:?} returns {:?}, leaves {} and reports {:?} to the eviction callback under {:?}{}, but returns {:?}, leaves {} and reports {:?} under {}",
                        op,
                        r.ret,
                        r.post.as_ref().map(|s| crate::oracle::show(cfg, s)).unwrap_or_default(),
                        r.cb_log,
                        cfg.hasher,
                        if cfg.mixed_hashers { "(mixed per list)" } else { "" },
                        o.ret,
                        o.post.as_ref().map(|s| crate::oracle::show(cfg, s)).unwrap_or_default(),
                        o.cb_log,
                        name
                    ),
                ));
            }
        }
        r
    }
}
