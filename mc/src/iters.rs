//! C14: every iterator family of every list, every next/next_back word of length len+extra,
//! compared with the list order of the snapshot (DESIGN §C14).
use crate::ops::*;
use crate::track::{KeyT, ValT};
use caches::{AdaptiveCache, OnEvictCallback, RawLRU, TwoQueueCache};
use std::hash::BuildHasher;

fn m_ent(e: Ent) -> Ent {
    e
}
fn m_key(e: Ent) -> Ent {
    (e.0, (254, 254))
}
fn m_val(e: Ent) -> Ent {
    (254, e.1)
}
fn p_ent<K: KeyT, V: ValT>(x: (&K, &V)) -> Ent {
    (x.0.id(), x.1.kv())
}
fn p_ent_mut<K: KeyT, V: ValT>(x: (&K, &mut V)) -> Ent {
    (x.0.id(), x.1.kv())
}
fn p_key<K: KeyT>(k: &K) -> Ent {
    (k.id(), (254, 254))
}
fn p_val<V: ValT>(v: &V) -> Ent {
    (254, v.kv())
}
fn p_val_mut<V: ValT>(v: &mut V) -> Ent {
    (254, v.kv())
}

pub struct IterStats {
    pub runs: u64,
    pub problems: Vec<String>,
}

impl IterStats {
    fn bad(&mut self, s: String) {
        if self.problems.len() < 8 {
            self.problems.push(s);
        }
    }
}

fn word_str(bits: u32, len: usize) -> String {
    (0..len).map(|i| if (bits >> i) & 1 == 0 { 'F' } else { 'B' }).collect()
}

/// Runs all words of length `expect.len() + extra` over a fresh iterator `$mk` each time.
/// `$lru` says whether the family is least-recent-first; `$mask` projects the expected entries;
/// `$proj` projects the yielded items.
macro_rules! words {
    ($st:expr, $name:expr, $expect:expr, $extra:expr, $lru:expr, $mask:expr, $proj:expr, $mk:expr) => {{
        let mut seq: Vec<Ent> = $expect.iter().copied().map($mask).collect();
        if $lru {
            seq.reverse();
        }
        let l = seq.len() + $extra;
        for bits in 0u32..(1u32 << l) {
            $st.runs += 1;
            let mut it = $mk;
            let (mut lo, mut hi) = (0usize, seq.len());
            if it.len() != hi - lo || it.size_hint() != (hi - lo, Some(hi - lo)) {
                $st.bad(format!("{}: fresh iterator reports len {} / size_hint {:?}, list has {} entries", $name, it.len(), it.size_hint(), hi));
            }
            let mut seen: Vec<Ent> = Vec::new();
            for i in 0..l {
                let back = (bits >> i) & 1 == 1;
                let got = if back { it.next_back().map($proj) } else { it.next().map($proj) };
                if let Some(g) = got {
                    if seen.contains(&g) {
                        $st.bad(format!("{}: word {} step {}: yielded {:?} a second time (a second live reference to the same entry)", $name, word_str(bits, l), i, g));
                        break;
                    }
                    seen.push(g);
                }
                let want = if lo == hi {
                    None
                } else if back {
                    hi -= 1;
                    Some(seq[hi])
                } else {
                    lo += 1;
                    Some(seq[lo - 1])
                };
                if got != want {
                    $st.bad(format!("{}: word {} step {}: yielded {:?}, expected {:?} (list MRU-first {:?})", $name, word_str(bits, l), i, got, want, $expect));
                    break;
                }
                let r = hi - lo;
                if it.len() != r || it.size_hint() != (r, Some(r)) {
                    $st.bad(format!("{}: word {} after step {}: len {} / size_hint {:?}, expected {}", $name, word_str(bits, l), i, it.len(), it.size_hint(), r));
                    break;
                }
            }
        }
        // the provided adaptors an iterator type may override: nth / nth_back (what rev().skip(n), step_by use),
        // last, count - from a fresh iterator and after one step from either end
        for pre in 0..3u8 {
            for n in 0..=seq.len() {
                for which in 0..2u8 {
                    $st.runs += 1;
                    let mut it = $mk;
                    let (mut lo, mut hi) = (0usize, seq.len());
                    if pre == 1 && it.next().is_some() {
                        lo += 1;
                    }
                    if pre == 2 && it.next_back().is_some() {
                        hi -= 1;
                    }
                    let pre_s = ["", "next, ", "next_back, "][pre as usize];
                    if which == 0 {
                        let got = it.nth(n).map($proj);
                        let want = if lo + n < hi { Some(seq[lo + n]) } else { None };
                        let lo2 = (lo + n + 1).min(hi);
                        let back = it.next_back().map($proj);
                        let want_back = if lo2 < hi { Some(seq[hi - 1]) } else { None };
                        let hi2 = if lo2 < hi { hi - 1 } else { hi };
                        let after = it.next().map($proj);
                        let want_after = if lo2 < hi2 { Some(seq[lo2]) } else { None };
                        if got != want || back != want_back || after != want_after {
                            let alias = (got.is_some() && (got == back || got == after)) || (back.is_some() && back == after);
                            $st.bad(format!(
                                "{}: {}nth({}) yielded {:?}, then next_back() {:?}, then next() {:?}; expected {:?}, {:?}, {:?}{} (list MRU-first {:?})",
                                $name, pre_s, n, got, back, after, want, want_back, want_after, if alias { " - an entry was yielded a second time (a second live reference to the same entry)" } else { "" }, $expect
                            ));
                        }
                    } else {
                        let got = it.nth_back(n).map($proj);
                        let want = if n < hi - lo { Some(seq[hi - 1 - n]) } else { None };
                        let after = it.next_back().map($proj);
                        let want_after = if n + 1 < hi - lo { Some(seq[hi - 2 - n]) } else { None };
                        let front = it.next().map($proj);
                        let want_front = if n + 2 < hi - lo { Some(seq[lo]) } else { None };
                        if got != want || after != want_after || front != want_front {
                            $st.bad(format!("{}: {}nth_back({}) yielded {:?}, then next_back() {:?}, then next() {:?}; expected {:?}, {:?}, {:?} (list MRU-first {:?})", $name, pre_s, n, got, after, front, want, want_after, want_front, $expect));
                        }
                    }
                }
            }
            $st.runs += 1;
            let mut it = $mk;
            let (mut lo, mut hi) = (0usize, seq.len());
            if pre == 1 && it.next().is_some() {
                lo += 1;
            }
            if pre == 2 && it.next_back().is_some() {
                hi -= 1;
            }
            let last = it.last().map($proj);
            let want_last = if lo < hi { Some(seq[hi - 1]) } else { None };
            let mut it2 = $mk;
            if pre == 1 {
                it2.next();
            }
            if pre == 2 {
                it2.next_back();
            }
            let cnt = it2.count();
            if last != want_last || cnt != hi - lo {
                // a fold-based consumer that runs past the other cursor hands out entries the back end already gave away
                let alias = pre == 2 && (cnt > hi - lo || (last.is_some() && seq.len() > hi && last == Some(seq[hi])));
                $st.bad(format!(
                    "{}: after {} last() is {:?} and count() {}, expected {:?} and {}{} (list MRU-first {:?})",
                    $name, ["no step", "one next()", "one next_back()"][pre as usize], last, cnt, want_last, hi - lo, if alias { " - an entry was yielded a second time (a second live reference to the same entry)" } else { "" }, $expect
                ));
            }
            // internal iteration in both directions (fold / rfold, what for_each, rev().for_each, rev().last use)
            {
                let fwd: Vec<Ent> = {
                    let mut a = $mk;
                    if pre == 1 {
                        a.next();
                    }
                    if pre == 2 {
                        a.next_back();
                    }
                    a.fold(Vec::new(), |mut acc, x| {
                        acc.push(($proj)(x));
                        acc
                    })
                };
                let bwd: Vec<Ent> = {
                    let mut b = $mk;
                    if pre == 1 {
                        b.next();
                    }
                    if pre == 2 {
                        b.next_back();
                    }
                    b.rfold(Vec::new(), |mut acc, x| {
                        acc.push(($proj)(x));
                        acc
                    })
                };
                let want_fwd: Vec<Ent> = seq[lo..hi].to_vec();
                let mut want_bwd = want_fwd.clone();
                want_bwd.reverse();
                if fwd != want_fwd || bwd != want_bwd {
                    let alias = fwd.len() > want_fwd.len() || bwd.len() > want_bwd.len();
                    $st.bad(format!(
                        "{}: after {} fold visits {:?} and rfold {:?}, expected {:?} and {:?}{}",
                        $name, ["no step", "one next()", "one next_back()"][pre as usize], fwd, bwd, want_fwd, want_bwd, if alias && pre > 0 { " - an entry was yielded a second time (a second live reference to the same entry)" } else { "" }
                    ));
                }
            }
        }
    }};
}

/// Clone independence and count() for the cloneable (shared) families.
macro_rules! clones {
    ($st:expr, $name:expr, $expect:expr, $lru:expr, $mask:expr, $proj:expr, $mk:expr) => {{
        let mut seq: Vec<Ent> = $expect.iter().copied().map($mask).collect();
        if $lru {
            seq.reverse();
        }
        let l = seq.len();
        // every prefix word of length <= l, then a clone advanced by every word of length <= 2
        for plen in 0..=l {
            for bits in 0u32..(1u32 << plen) {
                $st.runs += 1;
                let mut it = $mk;
                let (mut lo, mut hi) = (0usize, l);
                for i in 0..plen {
                    if (bits >> i) & 1 == 1 {
                        it.next_back();
                        hi -= 1;
                    } else {
                        it.next();
                        lo += 1;
                    }
                }
                if it.clone().count() != hi - lo {
                    $st.bad(format!("{}: count() of a clone after prefix {} is {}, expected {}", $name, word_str(bits, plen), it.clone().count(), hi - lo));
                }
                for cb in 0u32..4 {
                    let mut cl = it.clone();
                    let (mut clo, mut chi) = (lo, hi);
                    for j in 0..2 {
                        let back = (cb >> j) & 1 == 1;
                        let got = if back { cl.next_back().map($proj) } else { cl.next().map($proj) };
                        let want = if clo == chi {
                            None
                        } else if back {
                            chi -= 1;
                            Some(seq[chi])
                        } else {
                            clo += 1;
                            Some(seq[clo - 1])
                        };
                        if got != want {
                            $st.bad(format!("{}: clone taken after prefix {} yields {:?}, expected {:?}", $name, word_str(bits, plen), got, want));
                        }
                    }
                }
                // the original is unaffected by what its clones did
                let rest: Vec<Ent> = it.map($proj).collect();
                if rest != seq[lo..hi].to_vec() {
                    $st.bad(format!("{}: after cloning at prefix {} the original yields {:?}, expected {:?}", $name, word_str(bits, plen), rest, &seq[lo..hi]));
                }
            }
        }
    }};
}

/// Writes through a mutable family are visible afterwards and do not change the order.
macro_rules! writes {
    ($st:expr, $name:expr, $expect:expr, $flip:expr, $mk:expr, $read:expr) => {{
        for pass in 0..2 {
            $st.runs += 1;
            {
                let it = $mk;
                for x in it {
                    $flip(x);
                }
            }
            let now: Vec<Ent> = $read;
            let want: Vec<Ent> = $expect.iter().map(|(k, (vk, vv))| (*k, (*vk, if pass == 0 { *vv ^ 1 } else { *vv }))).collect();
            if now != want {
                $st.bad(format!("{}: after flipping every value through the iterator (pass {}) the list reads {:?}, expected {:?}", $name, pass, now, want));
            }
        }
    }};
}

macro_rules! ten_families {
    ($st:expr, $pfx:expr, $expect:expr, $extra:expr, $c:expr,
     $iter:ident, $iter_lru:ident, $iter_mut:ident, $iter_lru_mut:ident, $keys:ident, $keys_lru:ident,
     $values:ident, $values_lru:ident, $values_mut:ident, $values_lru_mut:ident) => {{
        let e = $expect;
        words!($st, format!("{}{}", $pfx, stringify!($iter)), e, $extra, false, m_ent, p_ent, $c.$iter());
        words!($st, format!("{}{}", $pfx, stringify!($iter_lru)), e, $extra, true, m_ent, p_ent, $c.$iter_lru());
        words!($st, format!("{}{}", $pfx, stringify!($iter_mut)), e, $extra, false, m_ent, p_ent_mut, $c.$iter_mut());
        words!($st, format!("{}{}", $pfx, stringify!($iter_lru_mut)), e, $extra, true, m_ent, p_ent_mut, $c.$iter_lru_mut());
        words!($st, format!("{}{}", $pfx, stringify!($keys)), e, $extra, false, m_key, p_key, $c.$keys());
        words!($st, format!("{}{}", $pfx, stringify!($keys_lru)), e, $extra, true, m_key, p_key, $c.$keys_lru());
        words!($st, format!("{}{}", $pfx, stringify!($values)), e, $extra, false, m_val, p_val, $c.$values());
        words!($st, format!("{}{}", $pfx, stringify!($values_lru)), e, $extra, true, m_val, p_val, $c.$values_lru());
        words!($st, format!("{}{}", $pfx, stringify!($values_mut)), e, $extra, false, m_val, p_val_mut, $c.$values_mut());
        words!($st, format!("{}{}", $pfx, stringify!($values_lru_mut)), e, $extra, true, m_val, p_val_mut, $c.$values_lru_mut());
        clones!($st, format!("{}{}", $pfx, stringify!($iter)), e, false, m_ent, p_ent, $c.$iter());
        clones!($st, format!("{}{}", $pfx, stringify!($iter_lru)), e, true, m_ent, p_ent, $c.$iter_lru());
        clones!($st, format!("{}{}", $pfx, stringify!($keys)), e, false, m_key, p_key, $c.$keys());
        clones!($st, format!("{}{}", $pfx, stringify!($keys_lru)), e, true, m_key, p_key, $c.$keys_lru());
        clones!($st, format!("{}{}", $pfx, stringify!($values)), e, false, m_val, p_val, $c.$values());
        clones!($st, format!("{}{}", $pfx, stringify!($values_lru)), e, true, m_val, p_val, $c.$values_lru());
        writes!($st, format!("{}{}", $pfx, stringify!($iter_mut)), e, |x: (&K, &mut V)| x.1.flip(), $c.$iter_mut(), $c.$iter().map(p_ent).collect());
        writes!($st, format!("{}{}", $pfx, stringify!($iter_lru_mut)), e, |x: (&K, &mut V)| x.1.flip(), $c.$iter_lru_mut(), $c.$iter().map(p_ent).collect());
        writes!($st, format!("{}{}", $pfx, stringify!($values_mut)), e, |x: &mut V| x.flip(), $c.$values_mut(), $c.$iter().map(p_ent).collect());
        writes!($st, format!("{}{}", $pfx, stringify!($values_lru_mut)), e, |x: &mut V| x.flip(), $c.$values_lru_mut(), $c.$iter().map(p_ent).collect());
    }};
}

pub fn check_raw<K: KeyT, V: ValT, E: OnEvictCallback, S: BuildHasher>(c: &mut RawLRU<K, V, E, S>, expect: &[Ent], extra: usize) -> (u64, Vec<String>) {
    let mut st = IterStats { runs: 0, problems: vec![] };
    ten_families!(st, "", expect, extra, c, iter, iter_lru, iter_mut, iter_lru_mut, keys, keys_lru, values, values_lru, values_mut, values_lru_mut);
    words!(st, "(&cache).into_iter()", expect, extra, false, m_ent, p_ent, (&*c).into_iter());
    words!(st, "(&mut cache).into_iter()", expect, extra, false, m_ent, p_ent_mut, (&mut *c).into_iter());
    clones!(st, "(&cache).into_iter()", expect, false, m_ent, p_ent, (&*c).into_iter());
    writes!(st, "(&mut cache).into_iter()", expect, |x: (&K, &mut V)| x.1.flip(), (&mut *c).into_iter(), c.iter().map(p_ent).collect());
    (st.runs, st.problems)
}

pub fn check_twoq<K: KeyT, V: ValT, A: BuildHasher, B: BuildHasher, C: BuildHasher>(
    c: &mut TwoQueueCache<K, V, A, B, C>,
    snap: &Snap,
    extra: usize,
) -> (u64, Vec<String>) {
    let mut st = IterStats { runs: 0, problems: vec![] };
    ten_families!(st, "", &snap.lists[0], extra, c, recent_iter, recent_iter_lru, recent_iter_mut, recent_iter_lru_mut, recent_keys, recent_keys_lru, recent_values, recent_values_lru, recent_values_mut, recent_values_lru_mut);
    ten_families!(st, "", &snap.lists[1], extra, c, frequent_iter, frequent_iter_lru, frequent_iter_mut, frequent_iter_lru_mut, frequent_keys, frequent_keys_lru, frequent_values, frequent_values_lru, frequent_values_mut, frequent_values_lru_mut);
    ten_families!(st, "", &snap.lists[2], extra, c, ghost_iter, ghost_iter_lru, ghost_iter_mut, ghost_iter_lru_mut, ghost_keys, ghost_keys_lru, ghost_values, ghost_values_lru, ghost_values_mut, ghost_values_lru_mut);
    (st.runs, st.problems)
}

pub fn check_arc<K: KeyT, V: ValT, A: BuildHasher, B: BuildHasher, C: BuildHasher, D: BuildHasher>(
    c: &mut AdaptiveCache<K, V, A, B, C, D>,
    snap: &Snap,
    extra: usize,
) -> (u64, Vec<String>) {
    let mut st = IterStats { runs: 0, problems: vec![] };
    ten_families!(st, "", &snap.lists[0], extra, c, recent_iter, recent_iter_lru, recent_iter_mut, recent_iter_lru_mut, recent_keys, recent_keys_lru, recent_values, recent_values_lru, recent_values_mut, recent_values_lru_mut);
    ten_families!(st, "", &snap.lists[1], extra, c, frequent_iter, frequent_iter_lru, frequent_iter_mut, frequent_iter_lru_mut, frequent_keys, frequent_keys_lru, frequent_values, frequent_values_lru, frequent_values_mut, frequent_values_lru_mut);
    ten_families!(st, "", &snap.lists[2], extra, c, recent_evict_iter, recent_evict_iter_lru, recent_evict_iter_mut, recent_evict_iter_lru_mut, recent_evict_keys, recent_evict_keys_lru, recent_evict_values, recent_evict_values_lru, recent_evict_values_mut, recent_evict_values_lru_mut);
    ten_families!(st, "", &snap.lists[3], extra, c, frequent_evict_iter, frequent_evict_iter_lru, frequent_evict_iter_mut, frequent_evict_iter_lru_mut, frequent_evict_keys, frequent_evict_keys_lru, frequent_evict_values, frequent_evict_values_lru, frequent_evict_values_mut, frequent_evict_values_lru_mut);
    (st.runs, st.problems)
}

// ---------------------------------------------------------------- observer `Iters` for 2Q / ARC

macro_rules! drain_ten {
    ($v:expr, $c:expr, $iter:ident, $iter_lru:ident, $iter_mut:ident, $iter_lru_mut:ident, $keys:ident, $keys_lru:ident,
     $values:ident, $values_lru:ident, $values_mut:ident, $values_lru_mut:ident) => {{
        $v.push(Ret::Ents($c.$iter().map(p_ent).collect()));
        $v.push(Ret::Ents($c.$iter_lru().map(p_ent).collect()));
        $v.push(Ret::Ents($c.$iter_mut().map(p_ent_mut).collect()));
        $v.push(Ret::Ents($c.$iter_lru_mut().map(p_ent_mut).collect()));
        $v.push(Ret::Ents($c.$keys().map(p_key).collect()));
        $v.push(Ret::Ents($c.$keys_lru().map(p_key).collect()));
        $v.push(Ret::Ents($c.$values().map(p_val).collect()));
        $v.push(Ret::Ents($c.$values_lru().map(p_val).collect()));
        $v.push(Ret::Ents($c.$values_mut().map(p_val_mut).collect()));
        $v.push(Ret::Ents($c.$values_lru_mut().map(p_val_mut).collect()));
    }};
}

pub fn drain_twoq<K: KeyT, V: ValT, A: BuildHasher, B: BuildHasher, C: BuildHasher>(c: &mut TwoQueueCache<K, V, A, B, C>) -> Vec<Ret> {
    let mut v = vec![];
    drain_ten!(v, c, recent_iter, recent_iter_lru, recent_iter_mut, recent_iter_lru_mut, recent_keys, recent_keys_lru, recent_values, recent_values_lru, recent_values_mut, recent_values_lru_mut);
    drain_ten!(v, c, frequent_iter, frequent_iter_lru, frequent_iter_mut, frequent_iter_lru_mut, frequent_keys, frequent_keys_lru, frequent_values, frequent_values_lru, frequent_values_mut, frequent_values_lru_mut);
    drain_ten!(v, c, ghost_iter, ghost_iter_lru, ghost_iter_mut, ghost_iter_lru_mut, ghost_keys, ghost_keys_lru, ghost_values, ghost_values_lru, ghost_values_mut, ghost_values_lru_mut);
    v
}

pub fn drain_arc<K: KeyT, V: ValT, A: BuildHasher, B: BuildHasher, C: BuildHasher, D: BuildHasher>(c: &mut AdaptiveCache<K, V, A, B, C, D>) -> Vec<Ret> {
    let mut v = vec![];
    drain_ten!(v, c, recent_iter, recent_iter_lru, recent_iter_mut, recent_iter_lru_mut, recent_keys, recent_keys_lru, recent_values, recent_values_lru, recent_values_mut, recent_values_lru_mut);
    drain_ten!(v, c, frequent_iter, frequent_iter_lru, frequent_iter_mut, frequent_iter_lru_mut, frequent_keys, frequent_keys_lru, frequent_values, frequent_values_lru, frequent_values_mut, frequent_values_lru_mut);
    drain_ten!(v, c, recent_evict_iter, recent_evict_iter_lru, recent_evict_iter_mut, recent_evict_iter_lru_mut, recent_evict_keys, recent_evict_keys_lru, recent_evict_values, recent_evict_values_lru, recent_evict_values_mut, recent_evict_values_lru_mut);
    drain_ten!(v, c, frequent_evict_iter, frequent_evict_iter_lru, frequent_evict_iter_mut, frequent_evict_iter_lru_mut, frequent_evict_keys, frequent_evict_keys_lru, frequent_evict_values, frequent_evict_values_lru, frequent_evict_values_mut, frequent_evict_values_lru_mut);
    v
}

/// flip the value of the item whose *yielded key* is the addressed one
pub fn by_key<'a, K: KeyT + 'a, V: ValT + 'a, I: DoubleEndedIterator<Item = (&'a K, &'a mut V)>>(it: I, n: usize) -> bool {
    let key = (n % 100) as u8;
    let mut hit = false;
    if n >= 200 {
        for (k, v) in it {
            if k.id() == key {
                v.flip();
                hit = true;
            }
        }
    } else {
        for (k, v) in it.rev() {
            if k.id() == key {
                v.flip();
                hit = true;
            }
        }
    }
    hit
}

macro_rules! write_four {
    ($c:expr, $fam:expr, $n:expr, $iter_mut:ident, $iter_lru_mut:ident, $values_mut:ident, $values_lru_mut:ident) => {
        match $fam {
            // n >= 100: the write is addressed by the key the iterator yields with the value (100 + key: walking
            // from the back, 200 + key: from the front) - it must land in that key's entry
            IterFam::IterMut if $n >= 100 => Ret::Bool(by_key($c.$iter_mut(), $n)),
            IterFam::IterLruMut if $n >= 100 => Ret::Bool(by_key($c.$iter_lru_mut(), $n)),
            IterFam::IterMut => Ret::Bool($c.$iter_mut().nth($n).map(|(_, v)| v.flip()).is_some()),
            IterFam::IterLruMut => Ret::Bool($c.$iter_lru_mut().nth($n).map(|(_, v)| v.flip()).is_some()),
            IterFam::ValuesMut => Ret::Bool($c.$values_mut().nth($n).map(|v| v.flip()).is_some()),
            IterFam::ValuesLruMut => Ret::Bool($c.$values_lru_mut().nth($n).map(|v| v.flip()).is_some()),
            _ => Ret::NotApplicable,
        }
    };
}

pub fn write_twoq<K: KeyT, V: ValT, A: BuildHasher, B: BuildHasher, C: BuildHasher>(c: &mut TwoQueueCache<K, V, A, B, C>, list: u8, fam: IterFam, n: usize) -> Ret {
    match list {
        0 => write_four!(c, fam, n, recent_iter_mut, recent_iter_lru_mut, recent_values_mut, recent_values_lru_mut),
        1 => write_four!(c, fam, n, frequent_iter_mut, frequent_iter_lru_mut, frequent_values_mut, frequent_values_lru_mut),
        _ => write_four!(c, fam, n, ghost_iter_mut, ghost_iter_lru_mut, ghost_values_mut, ghost_values_lru_mut),
    }
}

pub fn write_arc<K: KeyT, V: ValT, A: BuildHasher, B: BuildHasher, C: BuildHasher, D: BuildHasher>(c: &mut AdaptiveCache<K, V, A, B, C, D>, list: u8, fam: IterFam, n: usize) -> Ret {
    match list {
        0 => write_four!(c, fam, n, recent_iter_mut, recent_iter_lru_mut, recent_values_mut, recent_values_lru_mut),
        1 => write_four!(c, fam, n, frequent_iter_mut, frequent_iter_lru_mut, frequent_values_mut, frequent_values_lru_mut),
        2 => write_four!(c, fam, n, recent_evict_iter_mut, recent_evict_iter_lru_mut, recent_evict_values_mut, recent_evict_values_lru_mut),
        _ => write_four!(c, fam, n, frequent_evict_iter_mut, frequent_evict_iter_lru_mut, frequent_evict_values_mut, frequent_evict_values_lru_mut),
    }
}
