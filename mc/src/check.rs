//! `mc check <ID> --tier quick|thorough`: run every exploration a property owns, report
//! violations (minus the committed known findings), write replay files and the evidence file.
use crate::driver::{make_driver, Driver, MultiDriver};
use crate::engine::{explore, Explore, Limits, Violation};
use crate::ops::*;
use crate::oracle::Finding;
use crate::plan::{plan, RunSpec, Tier};
use serde_json::{json, Value};
use std::collections::{BTreeMap, BTreeSet};
use std::time::Instant;

/// Output root (evidence/, replays/, KNOWN_FINDINGS.txt). `/verif` unless MC_VERIF_DIR is set — used
/// only by scratch runs against a copy of the repository (mutants/cross matrices), never by MANIFEST commands.
pub fn verif_dir() -> String {
    std::env::var("MC_VERIF_DIR").unwrap_or_else(|_| "/verif".to_string())
}

/// Root of the crate under test as seen in panic locations (`/repo` unless MC_REPO_DIR is set).
pub fn repo_dir() -> String {
    std::env::var("MC_REPO_DIR").unwrap_or_else(|_| "/repo".to_string())
}

pub const PROPS: [&str; 20] = [
    "C01", "C02", "C03", "C04", "C05", "C06", "C07", "C08", "C09", "C10", "C11", "C12", "C13", "C14", "C15", "C16", "C17", "C18", "C19", "C20",
];

pub fn static_id(p: &str) -> Option<&'static str> {
    PROPS.iter().copied().find(|x| *x == p)
}

/// A violation outside the closure engine (grid, estimator, cost tracker, probes, faults).
#[derive(Clone, Debug)]
pub struct Extra {
    pub finding: Finding,
    /// replayable description of the failing case
    pub case: Value,
    pub count: u64,
}

/// What a non-E1 engine reports back.
#[derive(Default)]
pub struct EngineReport {
    pub name: String,
    pub states: u64,
    pub transitions: u64,
    pub evaluations: u64,
    pub distinct_nontrivial: u64,
    pub exhaustive: bool,
    pub capped: Option<String>,
    pub detail: Value,
    pub samples: Vec<Value>,
    pub violations: Vec<Extra>,
    pub machinery_errors: Vec<String>,
}

pub fn dedupe(v: Vec<Extra>) -> Vec<Extra> {
    let mut m: BTreeMap<(String, String, String), Extra> = BTreeMap::new();
    for e in v {
        let k = (e.finding.prop.to_string(), e.finding.check.clone(), e.finding.disc.clone());
        match m.get_mut(&k) {
            Some(x) => x.count += e.count,
            None => {
                m.insert(k, e);
            }
        }
    }
    m.into_values().collect()
}

fn run_spec(s: &RunSpec, props: &BTreeSet<&'static str>, tier: Tier) -> Explore {
    let d: Box<dyn Driver> = if s.hashers.is_empty() { make_driver(&s.cfg) } else { Box::new(MultiDriver::new(&s.cfg, &s.hashers)) };
    let limits = Limits {
        max_states: if tier == Tier::Quick { 400_000 } else { 3_000_000 },
        max_secs: if tier == Tier::Quick { 40.0 } else { 900.0 },
        max_depth: s.max_depth,
        adequacy: s.adequacy,
        collect_histories: false,
        adequacy_depth: s.adequacy_depth,
        adequacy_prop: if props.contains("C17") { "C17" } else { props.iter().next().copied().unwrap_or("C17") },
    };
    let mut ex = explore(d.as_ref(), props, &s.want, &limits);
    if !s.hashers.is_empty() {
        ex.label = format!("{} lock-step with {:?}{}", ex.label, s.hashers, if s.adequacy { " + adequacy" } else { "" });
    }
    ex
}

pub struct Known {
    pub open: Vec<(String, String, String)>, // (prop, sig, text)
}

pub fn load_known() -> Known {
    let mut k = Known { open: vec![] };
    if let Ok(t) = std::fs::read_to_string(format!("{}/KNOWN_FINDINGS.txt", verif_dir())) {
        for line in t.lines() {
            let line = line.trim();
            if let Some(rest) = line.strip_prefix("open:") {
                let mut prop = String::new();
                let mut sig = String::new();
                let mut text = vec![];
                for tok in rest.split_whitespace() {
                    if let Some(p) = tok.strip_prefix("property=") {
                        prop = p.to_string();
                    } else if let Some(s) = tok.strip_prefix("sig=") {
                        sig = s.to_string();
                    } else {
                        text.push(tok);
                    }
                }
                k.open.push((prop, sig, text.join(" ")));
            }
        }
    }
    k
}

pub fn sig_of(f: &Finding) -> String {
    format!("{}/{}", f.check, f.disc).replace(' ', "_")
}

fn op_list(h: &[Op]) -> Value {
    serde_json::to_value(h).unwrap()
}

/// spell out the `FromItems(code)` operations mentioned in a message
fn explain_codes(detail: &str) -> String {
    let mut out = String::new();
    let mut seen: Vec<u16> = vec![];
    let mut rest = detail;
    while let Some(i) = rest.find("FromItems(") {
        rest = &rest[i + 10..];
        let num: String = rest.chars().take_while(|c| c.is_ascii_digit()).collect();
        if let Ok(code) = num.parse::<u16>() {
            if !seen.contains(&code) {
                seen.push(code);
                let (kind, items) = crate::ops::from_items_decode(code);
                let how = ["collect() of a Vec", "RawLRU::from(Vec)", "RawLRU::from([_; N])", "collect() through filter (size hint (0, n))", "collect() of a chain of two halves", "collect() through take_while over an unbounded source"];
                out += &format!(" [FromItems({}) = {} of the items {:?} as (key, value version)]", code, how.get(kind as usize).copied().unwrap_or("?"), items);
            }
        }
    }
    out
}

pub fn run(prop: &'static str, tier: Tier, seed: u64) -> i32 {
    let t0 = Instant::now();
    let _ = crate::panics::CURRENT_PROP.set(prop.to_string());
    let props: BTreeSet<&'static str> = [prop].into_iter().collect();
    let part_out = std::env::var("MC_PART_OUT").ok();
    let part_in: Option<Value> = std::env::var("MC_PART_IN").ok().and_then(|p| std::fs::read_to_string(p).ok()).and_then(|t| serde_json::from_str(&t).ok());
    let build_name = if cfg!(feature = "std") { "std" } else { "nostd" };
    let mut specs = plan(prop, tier);
    if part_out.is_some() {
        // second feature build: a reduced set of closures (the policy code is feature-independent;
        // what differs is the hash map implementation and the sketch), plus the auxiliary engines
        let mut per_kind: BTreeMap<Kind, usize> = BTreeMap::new();
        specs.retain(|s| {
            let n = per_kind.entry(s.cfg.kind).or_insert(0);
            *n += 1;
            // W-TinyLFU's own property runs every closure on the no_std sketch as well
            *n <= 2 || prop == "C10" || prop == "C08" || prop == "C01" || prop == "C17"
        });
    }
    let mut explores: Vec<Explore> = vec![];
    let mut viols: Vec<(Cfg, Vec<crate::hashers::HKind>, Violation)> = vec![];
    let mut machinery: Vec<String> = vec![];
    for s in &specs {
        let ex = run_spec(s, &props, tier);
        eprintln!(
            "[{}] {}: states={} transitions={} depth={} {} {:.1}s",
            prop,
            ex.label,
            ex.states,
            ex.transitions,
            ex.max_depth,
            if ex.closed { "closed".to_string() } else { format!("CAPPED: {}", ex.capped.clone().unwrap_or_default()) },
            ex.secs
        );
        for v in &ex.violations {
            viols.push((s.cfg.clone(), s.hashers.clone(), v.clone()));
        }
        machinery.extend(ex.machinery_errors.iter().cloned());
        explores.push(ex);
    }
    // determinism of the explorer itself: the first configuration is explored twice
    let mut determinism = Value::Null;
    if let Some(s) = specs.first() {
        let again = run_spec(s, &props, tier);
        let a = &explores[0];
        if (a.states, a.transitions, a.digest) != (again.states, again.transitions, again.digest) {
            // hash-seed dependent behaviour shows up here when RandomState is in play; that is a C17-type
            // finding only if C17 is being checked, otherwise it is a machinery problem of this run
            machinery.push(format!("exploring {} twice gave different graphs: {:?} vs {:?}", a.label, (a.states, a.transitions, a.digest), (again.states, again.transitions, again.digest)));
        }
        determinism = json!({"config": a.label, "states": a.states, "transitions": a.transitions, "digest": format!("{:x}", a.digest), "second_run_equal": (a.states, a.transitions, a.digest) == (again.states, again.transitions, again.digest)});
    }

    // non-E1 engines
    let mut reports: Vec<EngineReport> = vec![];
    match prop {
        "C03" => {
            if let Some(r) = crate::miri::report_from_env() {
                reports.push(r);
            }
            // memory safety also under unwinding: the hazards the fault engine finds are C03 violations as well
            let mut r = crate::faults::run_mode(tier, true);
            for v in r.violations.iter_mut() {
                v.finding.prop = "C03";
                v.finding.check = "no_memory_hazard_when_user_code_panics".into();
            }
            reports.push(r);
        }
        "C05" => {
            reports.push(crate::grid::run(tier));
            reports.push(crate::lfu::run_tinylfu("C05", tier));
            reports.push(crate::lfu::run_sampled("C05", tier));
        }
        "C01" => {
            reports.push(crate::sweeps::capacity_sweep(tier));
            reports.push(crate::faults::run_bounds_after_panic(tier));
        }
        "C06" | "C07" | "C09" => {
            reports.push(crate::sweeps::capacity_sweep(tier));
            reports.push(crate::zst::run(prop, tier));
        }
        "C08" => {
            reports.push(crate::sweeps::quota_sweep(tier));
            reports.push(crate::sweeps::capacity_sweep(tier));
            reports.push(crate::zst::run(prop, tier));
        }
        "C10" => reports.push(crate::zst::run(prop, tier)),
        "C11" => reports.push(crate::lfu::run_tinylfu("C11", tier)),
        "C12" => reports.push(crate::grid::put_result_structural()),
        "C15" => reports.push(crate::faults::run_callback_consistency(tier)),
        "C16" => reports.push(crate::lfu::run_tinylfu("C16", tier)),
        "C17" => {
            if cfg!(feature = "std") {
                reports.push(crate::grid::conversion_determinism(tier));
                reports.push(crate::grid::churn(tier));
            }
        }
        "C18" => reports.push(crate::faults::run(tier)),
        "C19" => reports.push(crate::probes::run(tier)),
        "C20" => reports.push(crate::lfu::run_sampled("C20", tier)),
        _ => {}
    }
    for r in &reports {
        machinery.extend(r.machinery_errors.iter().cloned());
        eprintln!("[{}] engine {}: states={} transitions={} evaluations={} violations={} {}", prop, r.name, r.states, r.transitions, r.evaluations, r.violations.len(), r.capped.clone().unwrap_or_default());
    }

    let hp = crate::panics::HARNESS_PANICS.load(std::sync::atomic::Ordering::Relaxed);
    if hp > 0 {
        machinery.push(format!("{} panic(s) inside the harness itself (see the HARNESS PANIC lines on stderr); nothing this run reports is a verdict", hp));
    }
    // ---- confirm, classify, report
    let known = load_known();
    let mut new_violations = 0;
    let mut known_hits = 0;
    let mut lines: Vec<String> = vec![];
    let dir = format!("{}/replays/{}", verif_dir(), prop);
    let mut idx = 0;
    let mut emit = |f: &Finding, case: Value, count: u64, lines: &mut Vec<String>, new_violations: &mut i32, known_hits: &mut i32| {
        let sig = sig_of(f);
        if let Some((_, _, text)) = known.open.iter().find(|(p, s, _)| p == f.prop && *s == sig) {
            lines.push(format!("KNOWN-FINDING: property={} {} [sig={}]", f.prop, text, sig));
            *known_hits += 1;
            return;
        }
        let _ = std::fs::create_dir_all(&dir);
        let path = format!("{}/{}{}.json", dir, if build_name == "std" { "" } else { "nostd-" }, idx);
        idx += 1;
        let body = json!({"property": f.prop, "check": f.check, "discriminator": f.disc, "signature": sig, "detail": f.detail, "occurrences": count, "build": build_name, "case": case});
        let _ = std::fs::write(&path, serde_json::to_string_pretty(&body).unwrap());
        lines.push(format!("VIOLATION property={} replay={}", f.prop, path));
        lines.push(format!("  check={} [{}] x{}: {}{}", f.check, f.disc, count, f.detail, explain_codes(&f.detail)));
        *new_violations += 1;
    };
    for (cfg, hashers, v) in &viols {
        // replay twice more from scratch before believing it
        let confirmed = confirm(cfg, hashers, &specs, v, &props);
        if !confirmed {
            machinery.push(format!("violation {} / {} did not reproduce on replay (history {:?})", v.finding.prop, v.finding.check, v.history));
            continue;
        }
        let case = json!({"engine": "closure", "cfg": cfg, "lockstep_hashers": hashers, "history": op_list(&v.history), "failing_op": v.failing_op, "history_debug": format!("{:?}", v.history)});
        emit(&v.finding, case, v.count, &mut lines, &mut new_violations, &mut known_hits);
    }
    for r in &reports {
        for e in dedupe(r.violations.clone()) {
            if e.finding.prop != prop {
                continue; // an engine shared by several properties: each check reports its own clauses only
            }
            emit(&e.finding, e.case.clone(), e.count, &mut lines, &mut new_violations, &mut known_hits);
        }
    }

    // ---- evidence
    let states: u64 = explores.iter().map(|e| e.states as u64).sum::<u64>() + reports.iter().map(|r| r.states).sum::<u64>();
    let transitions: u64 = explores.iter().map(|e| e.transitions).sum::<u64>() + reports.iter().map(|r| r.transitions).sum::<u64>();
    let executions: u64 = explores.iter().map(|e| e.executions).sum::<u64>() + reports.iter().map(|r| r.evaluations).sum::<u64>();
    let exhaustive = explores.iter().all(|e| e.closed) && reports.iter().all(|r| r.exhaustive);
    let mut counters: BTreeMap<String, u64> = BTreeMap::new();
    for e in &explores {
        for (k, v) in &e.counters {
            *counters.entry(k.clone()).or_insert(0) += v;
        }
    }
    let mut samples: Vec<Value> = vec![];
    for e in explores.iter().take(6) {
        if let Some(s) = e.samples.last() {
            samples.push(json!({"config": e.label, "history": s}));
        }
    }
    for r in &reports {
        samples.extend(r.samples.iter().take(4).cloned());
    }
    if samples.is_empty() {
        samples.push(json!("(no case explored)"));
    }
    let level = if prop == "C19" { "exploration" } else if prop == "C18" { "fault_enumeration" } else { "model_checking" };
    let distinct: u64 = reports.iter().map(|r| r.distinct_nontrivial).sum::<u64>() + states;
    let coverage = json!({
        "states": states,
        "transitions": transitions,
        "traces_validated_against_impl": transitions,
        "evaluations": executions.max(1),
        "distinct_nontrivial": distinct.max(if executions > 1 { 2 } else { 0 }),
        "rule": "closure engine: one evaluation = one fresh build of the real cache + replay of a BFS-shortest history + one operation (or the observer battery); distinct_nontrivial = distinct canonical states reached (plus the distinct non-trivial cases of the auxiliary engines, see engines[].detail)",
        "exhaustive": exhaustive,
        "samples": samples,
        "configurations": explores.iter().map(|e| json!({
            "config": e.label, "states": e.states, "transitions": e.transitions, "executions": e.executions, "max_depth": e.max_depth,
            "closed": e.closed, "capped": e.capped, "mutators": e.mutators, "observers": e.observers, "wall_s": (e.secs * 100.0).round() / 100.0,
            "iterator_runs": e.iter_runs, "clone_bisimulation_steps": e.clone_steps, "adequacy_pairs": e.adequacy_pairs, "adequacy_steps": e.adequacy_steps,
            "digest": format!("{:x}", e.digest)
        })).collect::<Vec<_>>(),
        "engines": reports.iter().map(|r| json!({"name": r.name, "states": r.states, "transitions": r.transitions, "evaluations": r.evaluations, "distinct_nontrivial": r.distinct_nontrivial, "exhaustive": r.exhaustive, "capped": r.capped, "detail": r.detail})).collect::<Vec<_>>(),
        "branch_counters": counters,
        "explorer_determinism": determinism,
        "how_traces_were_validated": "there is no separate model: every transition counted is one execution of the real crate built from /repo's working tree (feature verif-hooks); oracles are reference relations evaluated on observed pre/post snapshots",
        "known_findings_reproduced": known_hits,
        "machinery_errors": machinery,
    });
    if let Some(po) = part_out {
        let part = json!({"build": build_name, "states": states, "transitions": transitions, "evaluations": executions, "exhaustive": exhaustive, "violations": new_violations,
            "configurations": coverage["configurations"], "engines": coverage["engines"], "machinery_errors": machinery});
        let _ = std::fs::write(&po, serde_json::to_string_pretty(&part).unwrap());
        for l in &lines {
            println!("{}", l);
        }
        println!("{} ({} build): {} states, {} transitions, {} new violation(s)", prop, build_name, states, transitions, new_violations);
        if !machinery.is_empty() && new_violations == 0 {
            for m in &machinery {
                eprintln!("MACHINERY-ERROR: {}", m);
            }
            return 2;
        }
        return if new_violations > 0 { 1 } else { 0 };
    }
    let mut coverage = coverage;
    let mut total_violations = new_violations;
    if let Some(pi) = &part_in {
        let add = |k: &str| pi[k].as_u64().unwrap_or(0);
        coverage["states"] = json!(states + add("states"));
        coverage["transitions"] = json!(transitions + add("transitions"));
        coverage["traces_validated_against_impl"] = json!(transitions + add("transitions"));
        coverage["evaluations"] = json!(executions.max(1) + add("evaluations"));
        coverage["exhaustive"] = json!(exhaustive && pi["exhaustive"].as_bool().unwrap_or(false));
        coverage["second_feature_build"] = pi.clone();
        total_violations += pi["violations"].as_i64().unwrap_or(0) as i32;
    } else if matches!(prop, "C01" | "C05" | "C08" | "C10" | "C11" | "C17") {
        coverage["second_feature_build"] = json!("not run (the no_std build is driven by ./check)");
    }
    let new_violations_total = total_violations;
    let ev = json!({
        "property_id": prop,
        "tier": if tier == Tier::Quick { "quick" } else { "thorough" },
        "seed": seed,
        "level": level,
        "coverage": coverage,
        "assumptions": assumptions(prop),
        "wall_s": (t0.elapsed().as_secs_f64() * 100.0).round() / 100.0,
        "violations": new_violations_total,
    });
    let _ = std::fs::create_dir_all(format!("{}/evidence", verif_dir()));
    let evp = format!("{}/evidence/{}.json", verif_dir(), prop);
    if let Err(e) = std::fs::write(&evp, serde_json::to_string_pretty(&ev).unwrap()) {
        eprintln!("cannot write {}: {}", evp, e);
        return 2;
    }
    for l in &lines {
        println!("{}", l);
    }
    println!(
        "{} {}: {} states, {} transitions, {} executions, exhaustive={}, {} new violation(s), {} known finding(s), {:.1}s",
        prop,
        if tier == Tier::Quick { "quick" } else { "thorough" },
        states,
        transitions,
        executions,
        exhaustive,
        new_violations,
        known_hits,
        t0.elapsed().as_secs_f64()
    );
    if !machinery.is_empty() {
        for m in &machinery {
            eprintln!("MACHINERY-ERROR: {}", m);
        }
        if new_violations == 0 || hp > 0 {
            return 2;
        }
    }
    if new_violations > 0 {
        1
    } else {
        0
    }
}

fn assumptions(prop: &str) -> Vec<String> {
    let mut v = vec![
        "small-scope: keys, value versions, capacities and sample sizes are those listed under coverage.configurations; behaviour for larger parameters is not explored".to_string(),
        "two caches with equal abstract state (per-list order and values, capacities, p, estimator) have equal futures; checked, not assumed, by the C17 adequacy pass on the smallest configurations".to_string(),
        "the harness (mc), rustc and the std library are trusted".to_string(),
    ];
    match prop {
        "C03" | "C04" | "C18" => v.push("memory errors are observed through the structural audit hook, the registry allocator (exact liveness, poisoning, quarantine) and drop-tracked keys/values; reads of uninitialised padding are only visible to Miri (thorough tier)".to_string()),
        "C19" => v.push("only the probe programs of the matrix are judged; rustc's borrow checker is trusted".to_string()),
        _ => {}
    }
    v
}

/// re-run the failing step twice from scratch; the same finding must come back both times
fn confirm(cfg: &Cfg, hashers: &[crate::hashers::HKind], specs: &[RunSpec], v: &Violation, props: &BTreeSet<&'static str>) -> bool {
    if v.finding.check == "equal_states_have_equal_futures" || v.finding.check == "replay_determinism" {
        return true; // these are about two executions differing; re-execution cannot "reproduce" them pointwise
    }
    let want = specs.iter().find(|s| s.cfg == *cfg && s.hashers == hashers).or_else(|| specs.iter().find(|s| s.cfg == *cfg)).map(|s| s.want.clone()).unwrap_or_default();
    // A difference seen only on a leg keyed by the real RandomState depends on seeds that cannot be
    // pinned: it is a genuine observation of the code, so it is re-tried (fresh seeds) rather than
    // required to reproduce on the first re-execution.
    let randomised = hashers.contains(&crate::hashers::HKind::Random) && v.finding.check.starts_with("same_");
    if randomised {
        let hits = (0..64).filter(|_| reproduce(cfg, hashers, &want, &v.history, v.failing_op, &v.finding, props)).count();
        return hits > 0;
    }
    for _ in 0..2 {
        if !reproduce(cfg, hashers, &want, &v.history, v.failing_op, &v.finding, props) {
            return false;
        }
    }
    true
}

pub fn reproduce(cfg: &Cfg, hashers: &[crate::hashers::HKind], want: &crate::driver::Wants, hist: &[Op], op: Option<Op>, f: &Finding, props: &BTreeSet<&'static str>) -> bool {
    let d: Box<dyn Driver> = if hashers.is_empty() { make_driver(cfg) } else { Box::new(MultiDriver::new(cfg, hashers)) };
    let mut c = crate::oracle::Counters::new();
    let sres = d.state(hist, want);
    let found: Vec<Finding> = match op {
        None => crate::oracle::check_state(cfg, &sres, props, &mut c),
        Some(op) => {
            let pre = match &sres.snap {
                Some(s) => s.clone(),
                None => return false,
            };
            let t = d.trans(hist, op, want);
            crate::oracle::check_trans(cfg, &pre, &sres.probe, op, &t, props, &mut c)
        }
    };
    found.iter().any(|x| x.prop == f.prop && x.check == f.check && x.disc == f.disc)
}

/// `mc replay <file>`: re-execute a replay artefact without the explorer
pub fn replay(path: &str) -> i32 {
    let text = match std::fs::read_to_string(path) {
        Ok(t) => t,
        Err(e) => {
            eprintln!("cannot read {}: {}", path, e);
            return 2;
        }
    };
    let v: Value = match serde_json::from_str(&text) {
        Ok(v) => v,
        Err(e) => {
            eprintln!("bad replay file: {}", e);
            return 2;
        }
    };
    let prop = match v["property"].as_str().and_then(static_id) {
        Some(p) => p,
        None => {
            eprintln!("replay file names no known property");
            return 2;
        }
    };
    let case = &v["case"];
    match case["engine"].as_str() {
        Some("closure") => {
            let cfg: Cfg = serde_json::from_value(case["cfg"].clone()).unwrap();
            let hashers: Vec<crate::hashers::HKind> = serde_json::from_value(case["lockstep_hashers"].clone()).unwrap_or_default();
            let hist: Vec<Op> = serde_json::from_value(case["history"].clone()).unwrap();
            let op: Option<Op> = serde_json::from_value(case["failing_op"].clone()).unwrap_or(None);
            let props: BTreeSet<&'static str> = [prop].into_iter().collect();
            let want = plan(prop, Tier::Thorough).into_iter().find(|s| s.cfg == cfg).map(|s| s.want).unwrap_or_else(|| {
                let mut w = crate::driver::Wants { observers: true, probe: true, ..Default::default() };
                w.track_alloc = matches!(prop, "C03" | "C04");
                w.iters = prop == "C14";
                w.clone_check = prop == "C16";
                let mut ops = mutators(&cfg);
                ops.extend(observers(&cfg));
                w.clone_ops = ops;
                w
            });
            let d: Box<dyn Driver> = if hashers.is_empty() { make_driver(&cfg) } else { Box::new(MultiDriver::new(&cfg, &hashers)) };
            let mut c = crate::oracle::Counters::new();
            let sres = d.state(&hist, &want);
            println!("configuration: {}", cfg.label());
            println!("history: {:?}", hist);
            if let Some(s) = &sres.snap {
                println!("state after history: {}", crate::oracle::show(&cfg, s));
            }
            let found: Vec<Finding> = match op {
                None => crate::oracle::check_state(&cfg, &sres, &props, &mut c),
                Some(op) => {
                    let pre = sres.snap.clone().unwrap_or_default();
                    let t = d.trans(&hist, op, &want);
                    println!("operation: {:?} -> {:?}", op, t.ret);
                    if let Some(p) = &t.post {
                        println!("state after operation: {}", crate::oracle::show(&cfg, p));
                    }
                    crate::oracle::check_trans(&cfg, &pre, &sres.probe, op, &t, &props, &mut c)
                }
            };
            let mine: Vec<&Finding> = found.iter().filter(|f| f.prop == prop).collect();
            if mine.is_empty() {
                println!("{}: property holds on this replay", prop);
                if hashers.contains(&crate::hashers::HKind::Random) {
                    println!("note: this replay has legs keyed by std's RandomState; a difference that depends on its seeds may need several runs to show again");
                }
                0
            } else {
                for f in mine {
                    println!("VIOLATION property={} replay={}", prop, path);
                    println!("  check={} [{}]: {}", f.check, f.disc, f.detail);
                }
                1
            }
        }
        Some(other) => crate::replay_aux::replay(prop, other, case, path),
        None => {
            eprintln!("replay file has no case.engine");
            2
        }
    }
}
