//! One runtime-selected BuildHasher type (keeps the generic instantiations few).
use crate::track::fault::{tick, FK};
use serde::{Deserialize, Serialize};
use std::collections::hash_map::{DefaultHasher, RandomState};
use std::hash::{BuildHasher, Hasher};

#[derive(Clone, Copy, PartialEq, Eq, Debug, Hash, Serialize, Deserialize, PartialOrd, Ord)]
pub enum HKind {
    /// SipHash-1-3 with the zero key
    SipA,
    /// SipHash-1-3 with a different fixed prefix (acts as a second key)
    SipB,
    /// hash = the integer written / a fold of the bytes written
    Identity,
    /// every key collides
    Zero,
    /// FNV-1a
    Fnv,
    /// the real std RandomState (fresh random keys per construction)
    Random,
}

pub const DETERMINISTIC: [HKind; 5] = [HKind::SipA, HKind::SipB, HKind::Identity, HKind::Zero, HKind::Fnv];

#[derive(Clone)]
pub struct HB {
    kind: HKind,
    rs: Option<RandomState>,
}

impl HB {
    pub fn new(kind: HKind) -> Self {
        HB { kind, rs: if kind == HKind::Random { Some(RandomState::new()) } else { None } }
    }
    pub fn kind(&self) -> HKind {
        self.kind
    }
}

impl Default for HB {
    fn default() -> Self {
        HB::new(HKind::SipA)
    }
}

pub enum HH {
    Sip(DefaultHasher),
    Identity(u64),
    Zero,
    Fnv(u64),
}

impl BuildHasher for HB {
    type Hasher = HH;
    fn build_hasher(&self) -> HH {
        tick(FK::BuildHasher);
        match self.kind {
            HKind::SipA => HH::Sip(DefaultHasher::new()),
            HKind::SipB => {
                let mut h = DefaultHasher::new();
                h.write_u64(0x9e37_79b9_7f4a_7c15);
                HH::Sip(h)
            }
            HKind::Identity => HH::Identity(0),
            HKind::Zero => HH::Zero,
            HKind::Fnv => HH::Fnv(0xcbf2_9ce4_8422_2325),
            HKind::Random => HH::Sip(self.rs.as_ref().unwrap().build_hasher()),
        }
    }
}

impl Hasher for HH {
    fn write(&mut self, bytes: &[u8]) {
        tick(FK::HasherWrite);
        match self {
            HH::Sip(h) => h.write(bytes),
            HH::Identity(v) => {
                for b in bytes {
                    *v = v.rotate_left(8) ^ (*b as u64);
                }
            }
            HH::Zero => {}
            HH::Fnv(v) => {
                for b in bytes {
                    *v ^= *b as u64;
                    *v = v.wrapping_mul(0x0000_0100_0000_01b3);
                }
            }
        }
    }
    fn write_u64(&mut self, i: u64) {
        match self {
            HH::Identity(v) => {
                tick(FK::HasherWrite);
                *v = i
            }
            _ => self.write(&i.to_ne_bytes()),
        }
    }
    fn finish(&self) -> u64 {
        tick(FK::HasherFinish);
        match self {
            HH::Sip(h) => h.finish(),
            HH::Identity(v) => *v,
            HH::Zero => 0,
            HH::Fnv(v) => *v,
        }
    }
}

/// Deterministic KeyHasher for W-TinyLFU: hash = key id written through the Identity hasher
/// (so sketch verdicts do not depend on RandomState); `Spread` multiplies by an odd constant
/// so that the high bits (which the doorkeeper uses) differ between keys.
#[derive(Clone, Copy, PartialEq, Eq, Debug, Hash, Serialize, Deserialize, PartialOrd, Ord)]
pub enum KHKind {
    Identity,
    Spread,
    /// all keys share one hash (worst case for the estimator)
    Constant,
}

#[derive(Clone)]
pub struct KH(pub KHKind);

impl Default for KH {
    fn default() -> Self {
        KH(KHKind::Constant)
    }
}

impl<K: std::hash::Hash + Eq> caches::lfu::KeyHasher<K> for KH {
    fn hash_key<Q>(&self, key: &Q) -> u64
    where
        K: std::borrow::Borrow<Q>,
        Q: std::hash::Hash + Eq + ?Sized,
    {
        tick(FK::KeyHasher);
        let mut h = HH::Identity(0);
        key.hash(&mut h);
        let v = match h {
            HH::Identity(v) => v,
            _ => 0,
        };
        match self.0 {
            KHKind::Identity => v,
            KHKind::Spread => v.wrapping_add(1).wrapping_mul(0x9e37_79b9_7f4a_7c15),
            KHKind::Constant => 7,
        }
    }
}
