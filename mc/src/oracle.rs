//! Oracles: pure functions over plain data (snapshots, operations, return values).
//! Every clause is tagged with the property that owns it (DESIGN §4, §9).
use crate::driver::{Probe, StateRes, TransRes};
use crate::ops::*;
use std::collections::{BTreeMap, BTreeSet};

#[derive(Clone, Debug, PartialEq, Eq, PartialOrd, Ord)]
pub struct Finding {
    pub prop: &'static str,
    /// clause identifier, stable across runs
    pub check: String,
    /// discriminator (panic site, branch, ...) so that different violations of one clause differ
    pub disc: String,
    pub detail: String,
}

impl Finding {
    pub fn new(prop: &'static str, check: &str, disc: impl Into<String>, detail: impl Into<String>) -> Finding {
        Finding { prop, check: check.to_string(), disc: disc.into(), detail: detail.into() }
    }
}

pub type Counters = BTreeMap<String, u64>;
fn bump(c: &mut Counters, k: &str) {
    *c.entry(k.to_string()).or_insert(0) += 1;
}

pub fn show(cfg: &Cfg, s: &Snap) -> String {
    let names = list_names(cfg.kind);
    let mut parts = vec![];
    for (i, l) in s.lists.iter().enumerate() {
        let items: Vec<String> = l.iter().map(|(k, (vk, vv))| if *vk == *k { format!("{}v{}", k, vv) } else { format!("{}->({},{})", k, vk, vv) }).collect();
        parts.push(format!("{}=[{}]", names.get(i).copied().unwrap_or("?"), items.join(",")));
    }
    match cfg.kind {
        Kind::Raw => parts.push(format!("cap={}", s.scalars[0])),
        Kind::Arc => parts.push(format!("p={}", s.scalars[1])),
        _ => {}
    }
    if !s.inner.is_empty() {
        parts.push(format!("list-capacities={:?}", s.inner));
    }
    if s.shape != 0 {
        parts.push("(a list of this object is MIS-LINKED; shown as read from the front)".into());
    }
    if let Some(e) = &s.est {
        let bits: u32 = e.bitset.iter().map(|w| w.count_ones()).sum();
        parts.push(format!("est(w={},rows={:?},door_bits={})", e.w, e.rows, bits));
    }
    parts.join(" ")
}

// ------------------------------------------------------------------ list helpers

type L = Vec<Ent>;

fn has(l: &[Ent], k: u8) -> bool {
    l.iter().any(|e| e.0 == k)
}
fn val(l: &[Ent], k: u8) -> Option<VV> {
    l.iter().find(|e| e.0 == k).map(|e| e.1)
}
fn without(l: &[Ent], k: u8) -> L {
    l.iter().copied().filter(|e| e.0 != k).collect()
}
fn front(e: Ent, l: &[Ent]) -> L {
    let mut v = vec![e];
    v.extend_from_slice(l);
    v
}
fn drop_last(l: &[Ent]) -> L {
    l[..l.len().saturating_sub(1)].to_vec()
}
fn flip_key(l: &[Ent], k: u8) -> L {
    l.iter().map(|(kk, (vk, vv))| if *kk == k { (*kk, (*vk, *vv ^ 1)) } else { (*kk, (*vk, *vv)) }).collect()
}
fn flip_at(l: &[Ent], i: usize) -> L {
    l.iter().enumerate().map(|(j, (kk, (vk, vv)))| if j == i { (*kk, (*vk, *vv ^ 1)) } else { (*kk, (*vk, *vv)) }).collect()
}
fn is_subseq(sub: &[Ent], of: &[Ent]) -> bool {
    let mut it = of.iter();
    sub.iter().all(|x| it.any(|y| y == x))
}

fn qg(cfg: &Cfg) -> (usize, usize) {
    let n = cfg.caps[0] as f64;
    ((n * cfg.ratios.0).floor() as usize, (n * cfg.ratios.1).floor() as usize)
}

// ------------------------------------------------------------------ C06: RawLRU reference model

/// expected (ret, list, cap) of one RawLRU operation
pub fn raw_model(l: &[Ent], cap: usize, op: Op) -> Option<(Ret, L, usize)> {
    let put = |l: &[Ent], k: u8, ver: u8| -> (PR, L) {
        let v = (k, (k, ver));
        if let Some(old) = val(l, k) {
            (PR::Update(old), front(v, &without(l, k)))
        } else if cap == 0 {
            (PR::Evicted(k, (k, ver)), l.to_vec())
        } else if l.len() >= cap {
            let e = *l.last().unwrap();
            (PR::Evicted(e.0, e.1), front(v, &drop_last(l)))
        } else {
            (PR::Put, front(v, l))
        }
    };
    Some(match op {
        Op::Put(k, ver) => {
            let (r, l2) = put(l, k, ver);
            (Ret::Put(r), l2, cap)
        }
        Op::Get(k) | Op::GetMut(k) => match val(l, k) {
            Some(v) => (Ret::V(Some(v)), front((k, v), &without(l, k)), cap),
            None => (Ret::V(None), l.to_vec(), cap),
        },
        Op::GetMutW(k) => match val(l, k) {
            Some(v) => {
                let v2 = (v.0, v.1 ^ 1);
                (Ret::V(Some(v2)), front((k, v2), &without(l, k)), cap)
            }
            None => (Ret::V(None), l.to_vec(), cap),
        },
        Op::PeekMutW(k) => match val(l, k) {
            Some(v) => (Ret::V(Some((v.0, v.1 ^ 1))), flip_key(l, k), cap),
            None => (Ret::V(None), l.to_vec(), cap),
        },
        Op::Remove(k) => (Ret::V(val(l, k)), without(l, k), cap),
        Op::Purge => (Ret::Unit, vec![], cap),
        Op::RemoveLru => (Ret::KV(l.last().copied()), drop_last(l), cap),
        Op::Resize(n) => {
            let n = if n == 255 { usize::MAX } else { n as usize };
            let ev = l.len().saturating_sub(n);
            (Ret::Num(ev as u64), l[..l.len() - ev].to_vec(), n)
        }
        Op::GetLru | Op::GetLruMut => match l.last().copied() {
            Some(e) => (Ret::KV(Some(e)), front(e, &drop_last(l)), cap),
            None => (Ret::KV(None), vec![], cap),
        },
        Op::GetLruMutW => match l.last().copied() {
            Some(e) => {
                let e2 = (e.0, (e.1 .0, e.1 .1 ^ 1));
                (Ret::KV(Some(e2)), front(e2, &drop_last(l)), cap)
            }
            None => (Ret::KV(None), vec![], cap),
        },
        Op::GetMruMutW | Op::PeekMruMutW => match l.first().copied() {
            Some(e) => (Ret::KV(Some((e.0, (e.1 .0, e.1 .1 ^ 1)))), flip_at(l, 0), cap),
            None => (Ret::KV(None), vec![], cap),
        },
        Op::PeekLruMutW => match l.last().copied() {
            Some(e) => (Ret::KV(Some((e.0, (e.1 .0, e.1 .1 ^ 1)))), flip_at(l, l.len() - 1), cap),
            None => (Ret::KV(None), vec![], cap),
        },
        Op::PeekOrPut(k, ver) | Op::PeekMutOrPut(k, ver) => match val(l, k) {
            Some(v) => (Ret::OrPut(Some(v), None), l.to_vec(), cap),
            None => {
                let (r, l2) = put(l, k, ver);
                (Ret::OrPut(None, Some(r)), l2, cap)
            }
        },
        Op::PeekMutOrPutW(k, ver) => match val(l, k) {
            Some(v) => (Ret::OrPut(Some((v.0, v.1 ^ 1)), None), flip_key(l, k), cap),
            None => {
                let (r, l2) = put(l, k, ver);
                (Ret::OrPut(None, Some(r)), l2, cap)
            }
        },
        Op::ContainsOrPut(k, ver) => {
            if has(l, k) {
                (Ret::BoolOrPut(true, None), l.to_vec(), cap)
            } else {
                let (r, l2) = put(l, k, ver);
                (Ret::BoolOrPut(false, Some(r)), l2, cap)
            }
        }
        Op::CloneReplace | Op::CloneFromReplace => (Ret::Unit, l.to_vec(), cap),
        _ => return None,
    })
}

// ------------------------------------------------------------------ segmented LRU relation (C07, reused by C10)

/// acceptable (probationary, protected) successors of a put/get on SLRU state (pb, pt)
fn slru_promote(pb: &[Ent], pt: &[Ent], ct: usize, k: u8, newv: Option<VV>, c: &mut Counters) -> (L, L) {
    let v = newv.unwrap_or_else(|| val(pb, k).unwrap());
    let pt1 = front((k, v), pt);
    if pt1.len() > ct {
        bump(c, "slru.promote.with_demotion");
        let d = *pt1.last().unwrap();
        (front(d, &without(pb, k)), drop_last(&pt1))
    } else {
        bump(c, "slru.promote.no_demotion");
        (without(pb, k), pt1)
    }
}

pub fn slru_put(pb: &[Ent], pt: &[Ent], cb: usize, ct: usize, k: u8, v: VV, c: &mut Counters) -> (L, L) {
    if has(pt, k) {
        bump(c, "slru.put.protected_refresh");
        (pb.to_vec(), front((k, v), &without(pt, k)))
    } else if has(pb, k) {
        slru_promote(pb, pt, ct, k, Some(v), c)
    } else {
        let pb1 = front((k, v), pb);
        if pb1.len() > cb {
            bump(c, "slru.put.new.evicts_probationary_lru");
            (drop_last(&pb1), pt.to_vec())
        } else {
            bump(c, "slru.put.new.room");
            (pb1, pt.to_vec())
        }
    }
}

pub fn slru_get(pb: &[Ent], pt: &[Ent], ct: usize, k: u8, c: &mut Counters) -> (L, L) {
    if let Some(v) = val(pt, k) {
        bump(c, "slru.get.protected_refresh");
        (pb.to_vec(), front((k, v), &without(pt, k)))
    } else if has(pb, k) {
        slru_promote(pb, pt, ct, k, None, c)
    } else {
        (pb.to_vec(), pt.to_vec())
    }
}

fn slru_spec(cfg: &Cfg, pre: &Snap, op: Op, c: &mut Counters) -> Option<Vec<(L, L)>> {
    let (pb, pt) = (&pre.lists[0], &pre.lists[1]);
    // the configured capacities, not whatever the object believes after construction or cloning
    let (cb, ct) = (cfg.caps[0], cfg.caps[1]);
    Some(match op {
        Op::Put(k, ver) => vec![slru_put(pb, pt, cb, ct, k, (k, ver), c)],
        Op::Get(k) | Op::GetMut(k) => vec![slru_get(pb, pt, ct, k, c)],
        Op::GetMutW(k) => {
            let (a, b) = slru_get(pb, pt, ct, k, c);
            vec![(flip_key(&a, k), flip_key(&b, k))]
        }
        Op::PeekMutW(k) => vec![(flip_key(pb, k), flip_key(pt, k))],
        Op::PutProtected(k, ver) => {
            let v = (k, (k, ver));
            let pb1 = without(pb, k);
            if has(pt, k) {
                bump(c, "slru.put_protected.protected_resident");
                vec![(pb1, front(v, &without(pt, k)))]
            } else {
                if has(pb, k) {
                    bump(c, "slru.put_protected.probationary_resident");
                } else {
                    bump(c, "slru.put_protected.new");
                }
                if pt.len() >= ct {
                    // the statement does not say whether protected's LRU is evicted or demoted
                    let d = *pt.last().unwrap();
                    let pt2 = front(v, &drop_last(pt));
                    let mut demoted = front(d, &pb1);
                    if demoted.len() > cb {
                        demoted = drop_last(&demoted);
                    }
                    vec![(pb1.clone(), pt2.clone()), (demoted, pt2)]
                } else {
                    vec![(pb1, front(v, pt))]
                }
            }
        }
        Op::Remove(k) => vec![(without(pb, k), without(pt, k))],
        Op::RemoveLruProb => vec![(drop_last(pb), pt.to_vec())],
        Op::RemoveLruProt => vec![(pb.to_vec(), drop_last(pt))],
        Op::Purge => vec![(vec![], vec![])],
        Op::SegPeekW(seg, end) => {
            let l = if seg == 0 { pb } else { pt };
            if l.is_empty() {
                vec![(pb.to_vec(), pt.to_vec())]
            } else {
                let i = if end == 0 { l.len() - 1 } else { 0 };
                if seg == 0 {
                    vec![(flip_at(pb, i), pt.to_vec())]
                } else {
                    vec![(pb.to_vec(), flip_at(pt, i))]
                }
            }
        }
        Op::CloneReplace | Op::CloneFromReplace => vec![(pb.to_vec(), pt.to_vec())],
        _ => return None,
    })
}

// ------------------------------------------------------------------ 2Q relation (C08)

fn twoq_victim(r: &[Ent], f: &[Ent], q: usize, newkey: bool, c: &mut Counters) -> (bool, Ent) {
    // returns (from_recent, victim)
    let from_r = !r.is_empty() && (r.len() > q || (r.len() == q && newkey));
    let tag = format!(
        "2q.victim.{}.{}.{}",
        if newkey { "new" } else { "ghost_hit" },
        if r.len() > q { "recent_over_quota" } else if r.len() == q { "recent_at_quota" } else { "recent_under_quota" },
        if f.is_empty() { "frequent_empty" } else { "frequent_nonempty" }
    );
    bump(c, &tag);
    if from_r {
        (true, *r.last().unwrap())
    } else if !f.is_empty() {
        (false, *f.last().unwrap())
    } else {
        (true, *r.last().unwrap())
    }
}

fn twoq_spec(cfg: &Cfg, pre: &Snap, op: Op, c: &mut Counters) -> Option<Vec<(L, L, L)>> {
    let (r, f, g) = (&pre.lists[0], &pre.lists[1], &pre.lists[2]);
    let n = cfg.caps[0];
    let (q, gcap) = qg(cfg);
    Some(match op {
        Op::Put(k, ver) => {
            let v = (k, (k, ver));
            if has(f, k) {
                bump(c, "2q.put.frequent_refresh");
                vec![(r.clone(), front(v, &without(f, k)), g.clone())]
            } else if has(r, k) {
                bump(c, "2q.put.recent_to_frequent");
                vec![(without(r, k), front(v, f), g.clone())]
            } else if has(g, k) {
                if r.len() + f.len() >= n {
                    let (from_r, x) = twoq_victim(r, f, q, false, c);
                    let (r1, f1) = if from_r { (drop_last(r), f.clone()) } else { (r.clone(), drop_last(f)) };
                    let f2 = front(v, &f1);
                    // (A) k leaves the ghost list first, then x enters
                    let mut ga = front(x, &without(g, k));
                    if ga.len() > gcap {
                        ga = drop_last(&ga);
                    }
                    // (B) x enters first (the ghost list may drop its LRU, possibly k itself), then k leaves
                    let mut gb = front(x, g);
                    if gb.len() > gcap {
                        bump(c, "2q.put.ghost_hit.full.ghost_overflow");
                        gb = drop_last(&gb);
                    }
                    let gb = without(&gb, k);
                    bump(c, "2q.put.ghost_hit.full");
                    vec![(r1.clone(), f2.clone(), ga), (r1, f2, gb)]
                } else {
                    bump(c, "2q.put.ghost_hit.room");
                    vec![(r.clone(), front(v, f), without(g, k))]
                }
            } else if r.len() + f.len() >= n {
                let (from_r, x) = twoq_victim(r, f, q, true, c);
                let (r1, f1) = if from_r { (drop_last(r), f.clone()) } else { (r.clone(), drop_last(f)) };
                let mut g1 = front(x, g);
                if g1.len() > gcap {
                    bump(c, "2q.put.new.full.ghost_overflow");
                    g1 = drop_last(&g1);
                }
                bump(c, "2q.put.new.full");
                vec![(front(v, &r1), f1, g1)]
            } else {
                bump(c, "2q.put.new.room");
                vec![(front(v, r), f.clone(), g.clone())]
            }
        }
        Op::Get(k) | Op::GetMut(k) | Op::GetMutW(k) => {
            let w = matches!(op, Op::GetMutW(_));
            let fl = |l: L| if w { flip_key(&l, k) } else { l };
            if let Some(v) = val(f, k) {
                bump(c, "2q.get.frequent_refresh");
                vec![(r.clone(), fl(front((k, v), &without(f, k))), g.clone())]
            } else if let Some(v) = val(r, k) {
                bump(c, "2q.get.recent_to_frequent");
                vec![(without(r, k), fl(front((k, v), f)), g.clone())]
            } else {
                if has(g, k) {
                    bump(c, "2q.get.ghost_is_a_miss");
                }
                vec![(r.clone(), f.clone(), g.clone())]
            }
        }
        Op::PeekMutW(k) => vec![(flip_key(r, k), flip_key(f, k), g.clone())],
        Op::Remove(k) => {
            if has(r, k) || has(f, k) {
                vec![(without(r, k), without(f, k), g.clone())]
            } else {
                // removing a ghost: the statement only requires that nothing resident changes
                vec![(r.clone(), f.clone(), without(g, k)), (r.clone(), f.clone(), g.clone())]
            }
        }
        Op::Purge => vec![(vec![], vec![], vec![])],
        _ => return None,
    })
}

// ------------------------------------------------------------------ ARC relation (C09)

struct ArcExp {
    t1: L,
    t2: L,
    /// expected ghost lists before any (unspecified) trimming
    b1: L,
    b2: L,
    /// entry that must sit at the MRU end of B1 / B2 (just ghosted)
    b1_head: Option<Ent>,
    b2_head: Option<Ent>,
    p: Option<usize>,
}

fn arc_replace(t1: &[Ent], t2: &[Ent], b1: &[Ent], b2: &[Ent], p: usize, in_b2: bool, c: &mut Counters) -> (L, L, L, L, Option<Ent>, Option<Ent>) {
    let from_t1 = !t1.is_empty() && (t1.len() > p || (t1.len() == p && in_b2));
    let tag = format!(
        "arc.replace.{}.{}",
        if t1.len() > p { "t1_gt_p" } else if t1.len() == p { if in_b2 { "t1_eq_p_b2hit" } else { "t1_eq_p" } } else { "t1_lt_p" },
        if t2.is_empty() { "t2_empty" } else { "t2_nonempty" }
    );
    bump(c, &tag);
    if from_t1 || t2.is_empty() {
        if t1.is_empty() {
            return (t1.to_vec(), t2.to_vec(), b1.to_vec(), b2.to_vec(), None, None);
        }
        let x = *t1.last().unwrap();
        (drop_last(t1), t2.to_vec(), front(x, b1), b2.to_vec(), Some(x), None)
    } else {
        let x = *t2.last().unwrap();
        (t1.to_vec(), drop_last(t2), b1.to_vec(), front(x, b2), None, Some(x))
    }
}

fn arc_spec(pre: &Snap, op: Op, c: &mut Counters) -> Option<ArcExp> {
    let (t1, t2, b1, b2) = (&pre.lists[0], &pre.lists[1], &pre.lists[2], &pre.lists[3]);
    let n = pre.scalars[0] as usize;
    let p = pre.scalars[1] as usize;
    let same = |t1: L, t2: L| ArcExp { t1, t2, b1: b1.clone(), b2: b2.clone(), b1_head: None, b2_head: None, p: Some(p) };
    Some(match op {
        Op::Put(k, ver) => {
            let v = (k, (k, ver));
            if has(t1, k) {
                bump(c, "arc.put.t1_to_t2");
                same(without(t1, k), front(v, t2))
            } else if has(t2, k) {
                bump(c, "arc.put.t2_refresh");
                same(t1.clone(), front(v, &without(t2, k)))
            } else if has(b1, k) {
                let delta = std::cmp::max(1, b2.len() / b1.len());
                let p2 = std::cmp::min(n, p + delta);
                bump(c, if delta > 1 { "arc.put.b1_hit.delta_gt_1" } else { "arc.put.b1_hit.delta_1" });
                if p + delta >= n {
                    bump(c, "arc.put.b1_hit.p_capped");
                }
                let b1k = without(b1, k);
                let (t1a, t2a, b1a, b2a, h1, h2) =
                    if t1.len() + t2.len() >= n { arc_replace(t1, t2, &b1k, b2, p2, false, c) } else { (t1.clone(), t2.clone(), b1k, b2.clone(), None, None) };
                ArcExp { t1: t1a, t2: front(v, &t2a), b1: b1a, b2: b2a, b1_head: h1, b2_head: h2, p: Some(p2) }
            } else if has(b2, k) {
                let delta = std::cmp::max(1, b1.len() / b2.len());
                let p2 = p.saturating_sub(delta);
                bump(c, if delta > 1 { "arc.put.b2_hit.delta_gt_1" } else { "arc.put.b2_hit.delta_1" });
                if delta >= p {
                    bump(c, "arc.put.b2_hit.p_floored");
                }
                let b2k = without(b2, k);
                let (t1a, t2a, b1a, b2a, h1, h2) =
                    if t1.len() + t2.len() >= n { arc_replace(t1, t2, b1, &b2k, p2, true, c) } else { (t1.clone(), t2.clone(), b1.clone(), b2k, None, None) };
                ArcExp { t1: t1a, t2: front(v, &t2a), b1: b1a, b2: b2a, b1_head: h1, b2_head: h2, p: Some(p2) }
            } else {
                let (t1a, t2a, b1a, b2a, h1, h2) = if t1.len() + t2.len() >= n {
                    bump(c, "arc.put.new.full");
                    arc_replace(t1, t2, b1, b2, p, false, c)
                } else {
                    bump(c, "arc.put.new.room");
                    (t1.clone(), t2.clone(), b1.clone(), b2.clone(), None, None)
                };
                ArcExp { t1: front(v, &t1a), t2: t2a, b1: b1a, b2: b2a, b1_head: h1, b2_head: h2, p: Some(p) }
            }
        }
        Op::Get(k) | Op::GetMut(k) | Op::GetMutW(k) => {
            let w = matches!(op, Op::GetMutW(_));
            let fl = |l: L| if w { flip_key(&l, k) } else { l };
            if let Some(v) = val(t1, k) {
                bump(c, "arc.get.t1_to_t2");
                same(without(t1, k), fl(front((k, v), t2)))
            } else if let Some(v) = val(t2, k) {
                bump(c, "arc.get.t2_refresh");
                same(t1.clone(), fl(front((k, v), &without(t2, k))))
            } else {
                same(t1.clone(), t2.clone())
            }
        }
        Op::PeekMutW(k) => same(flip_key(t1, k), flip_key(t2, k)),
        Op::Remove(k) => {
            if has(t1, k) || has(t2, k) {
                same(without(t1, k), without(t2, k))
            } else {
                // ghost removal or not: both fine (sub-sequence rule below); resident lists unchanged
                let mut e = same(t1.clone(), t2.clone());
                e.p = Some(p);
                e
            }
        }
        Op::Purge => ArcExp { t1: vec![], t2: vec![], b1: vec![], b2: vec![], b1_head: None, b2_head: None, p: None },
        _ => return None,
    })
}

// ------------------------------------------------------------------ W-TinyLFU relation (C10)

struct WExp {
    w: L,
    pb: L,
    pt: L,
    /// entry demoted from protected into the window: its position inside the window is not specified
    demoted_into_window: Option<Ent>,
}

fn wtlfu_spec(cfg: &Cfg, pre: &Snap, probe: &Probe, op: Op, c: &mut Counters) -> Option<WExp> {
    if probe.estimates.is_empty() {
        return None; // the run did not ask for estimator probes
    }
    let (w, pb, pt) = (&pre.lists[0], &pre.lists[1], &pre.lists[2]);
    // configured capacities: cfg.caps = [window, protected, probationary]
    let (cw, cb, ct) = (cfg.caps[0], cfg.caps[2], cfg.caps[1]);
    Some(match op {
        Op::Put(k, ver) => {
            let v = (k, (k, ver));
            if has(w, k) {
                let w1 = without(w, k);
                if pt.len() >= ct {
                    bump(c, "wtlfu.put.window_hit.protected_full");
                    let d = *pt.last().unwrap();
                    WExp { w: front(d, &w1), pb: pb.clone(), pt: front(v, &drop_last(pt)), demoted_into_window: Some(d) }
                } else {
                    bump(c, "wtlfu.put.window_hit.protected_room");
                    WExp { w: w1, pb: pb.clone(), pt: front(v, pt), demoted_into_window: None }
                }
            } else if has(pb, k) || has(pt, k) {
                bump(c, "wtlfu.put.main_hit");
                let (a, b) = slru_put(pb, pt, cb, ct, k, v.1, c);
                WExp { w: w.clone(), pb: a, pt: b, demoted_into_window: None }
            } else if w.len() < cw {
                bump(c, "wtlfu.put.new.window_room");
                WExp { w: front(v, w), pb: pb.clone(), pt: pt.clone(), demoted_into_window: None }
            } else {
                let cand = *w.last().unwrap();
                let w2 = front(v, &drop_last(w));
                if pb.len() + pt.len() < cb + ct {
                    bump(c, "wtlfu.put.new.candidate_admitted_freely");
                    let (a, b) = slru_put(pb, pt, cb, ct, cand.0, cand.1, c);
                    WExp { w: w2, pb: a, pt: b, demoted_into_window: None }
                } else {
                    let victim = *pb.last().unwrap();
                    let ec = probe.estimates[cand.0 as usize];
                    let ev = probe.estimates[victim.0 as usize];
                    if ec < ev {
                        bump(c, "wtlfu.put.new.candidate_rejected");
                        WExp { w: w2, pb: pb.clone(), pt: pt.clone(), demoted_into_window: None }
                    } else {
                        bump(c, if ec == ev { "wtlfu.put.new.candidate_replaces_victim.tie" } else { "wtlfu.put.new.candidate_replaces_victim.higher" });
                        WExp { w: w2, pb: front(cand, &drop_last(pb)), pt: pt.clone(), demoted_into_window: None }
                    }
                }
            }
        }
        Op::Get(k) | Op::GetMut(k) | Op::GetMutW(k) => {
            let wr = matches!(op, Op::GetMutW(_));
            let fl = |l: L| if wr { flip_key(&l, k) } else { l };
            if let Some(v) = val(w, k) {
                bump(c, "wtlfu.get.window_hit");
                WExp { w: fl(front((k, v), &without(w, k))), pb: pb.clone(), pt: pt.clone(), demoted_into_window: None }
            } else {
                if has(pb, k) || has(pt, k) {
                    bump(c, "wtlfu.get.main_hit");
                } else {
                    bump(c, "wtlfu.get.miss");
                }
                let (a, b) = slru_get(pb, pt, ct, k, c);
                WExp { w: w.clone(), pb: fl(a), pt: fl(b), demoted_into_window: None }
            }
        }
        Op::PeekMutW(k) => WExp { w: flip_key(w, k), pb: flip_key(pb, k), pt: flip_key(pt, k), demoted_into_window: None },
        Op::Remove(k) => WExp { w: without(w, k), pb: without(pb, k), pt: without(pt, k), demoted_into_window: None },
        Op::Purge => WExp { w: vec![], pb: vec![], pt: vec![], demoted_into_window: None },
        Op::CloneReplace | Op::CloneFromReplace => WExp { w: w.clone(), pb: pb.clone(), pt: pt.clone(), demoted_into_window: None },
        _ => return None,
    })
}

// ------------------------------------------------------------------ state checks

fn resident_lists(kind: Kind) -> &'static [usize] {
    match kind {
        Kind::Raw => &[0],
        Kind::Slru | Kind::TwoQ | Kind::Arc => &[0, 1],
        Kind::Wtlfu => &[0, 1, 2],
    }
}

pub fn check_state(cfg: &Cfg, sres: &StateRes, en: &BTreeSet<&'static str>, c: &mut Counters) -> Vec<Finding> {
    let mut out = sres.extra.clone();
    exec_findings(cfg, &sres.exec, &sres.audit, "state", &mut out);
    let snap = match &sres.snap {
        Some(s) => s,
        None => return out,
    };
    let names = list_names(cfg.kind);
    let res = snap.resident(cfg.kind);
    let ghosts = snap.ghosts(cfg.kind);

    // ---- C03: memory read by the snapshot must hold valid keys/values
    for (li, l) in snap.lists.iter().enumerate() {
        for (k, (vk, vv)) in l {
            if *k == 255 || *vk == 255 || *vv == 255 {
                out.push(Finding::new("C03", "snapshot.valid_memory", names[li], format!("{} holds an entry whose key/value memory is not a live object: {}", names[li], show(cfg, snap))));
            }
        }
    }

    // ---- C01
    {
        let f = |check: &str, disc: String, detail: String| Finding::new("C01", check, disc, format!("{} in state {}", detail, show(cfg, snap)));
        let cap = snap.reported[1] as usize;
        if res.len() > cap {
            out.push(f("resident_le_cap", format!("{:?}", cfg.kind), format!("{} resident entries but cap() == {}", res.len(), cap)));
        }
        let bounds: Vec<(usize, usize)> = match cfg.kind {
            Kind::Raw => vec![(0, snap.scalars[0] as usize)],
            Kind::Slru => vec![(0, snap.scalars[0] as usize), (1, snap.scalars[1] as usize)],
            Kind::TwoQ => vec![(2, qg(cfg).1)],
            Kind::Arc => vec![(2, cfg.caps[0]), (3, cfg.caps[0])],
            Kind::Wtlfu => vec![(0, snap.scalars[0] as usize), (1, snap.scalars[1] as usize), (2, snap.scalars[2] as usize)],
        };
        for (li, b) in bounds {
            if snap.lists[li].len() > b {
                out.push(f("partition_bound", names[li].to_string(), format!("{} holds {} entries, bound {}", names[li], snap.lists[li].len(), b)));
            }
        }
        if matches!(cfg.kind, Kind::TwoQ | Kind::Arc) && snap.lists[0].len() + snap.lists[1].len() > cfg.caps[0] {
            out.push(f("partition_bound", "recent+frequent".into(), format!("recent+frequent = {} > size {}", snap.lists[0].len() + snap.lists[1].len(), cfg.caps[0])));
        }
        let expect_cap: usize = match cfg.kind {
            Kind::Raw => snap.scalars[0] as usize,
            Kind::Slru => cfg.caps[0] + cfg.caps[1],
            Kind::TwoQ | Kind::Arc => cfg.caps[0],
            Kind::Wtlfu => cfg.caps.iter().sum(),
        };
        // the per-partition capacities are the configured ones (whatever builder path was taken)
        let configured: Option<Vec<u64>> = match cfg.kind {
            Kind::Slru => Some(vec![cfg.caps[0] as u64, cfg.caps[1] as u64]),
            Kind::Wtlfu => Some(vec![cfg.caps[0] as u64, cfg.caps[2] as u64, cfg.caps[1] as u64]),
            _ => None,
        };
        if let Some(want) = configured {
            if snap.scalars != want {
                out.push(f("configured_capacities", format!("{:?}", cfg.kind), format!("per-segment capacities are {:?} but the cache was configured with {:?}", snap.scalars, want)));
            }
        }
        if cap != expect_cap {
            out.push(f("cap_reported", format!("{:?}", cfg.kind), format!("cap() == {} but the configured capacity is {}", cap, expect_cap)));
        }
        let mut seen: BTreeMap<u8, usize> = BTreeMap::new();
        for (li, l) in snap.lists.iter().enumerate() {
            for (k, _) in l {
                if let Some(prev) = seen.insert(*k, li) {
                    out.push(f("one_partition_per_key", format!("{}+{}", names[prev], names[li]), format!("key {} is held in {} and in {}", k, names[prev], names[li])));
                }
            }
        }
        if snap.reported[0] as usize != res.len() {
            out.push(f("len_counts_resident", format!("{:?}", cfg.kind), format!("len() == {} but {} entries are resident", snap.reported[0], res.len())));
        }
        let nothing = res.is_empty() && ghosts.is_empty();
        if (snap.reported[2] == 1) != nothing {
            out.push(f("is_empty_iff_nothing_retained", format!("{:?}", cfg.kind), format!("is_empty() == {} with {} resident and {} ghost entries", snap.reported[2] == 1, res.len(), ghosts.len())));
        }
        // len() == number of alphabet keys for which contains() is true (observer based)
        if !sres.obs.is_empty() {
            let n_contains = sres.obs.iter().filter(|(op, r)| matches!(op, Op::Contains(_)) && *r == Ret::Bool(true)).count();
            let n_distinct: BTreeSet<u8> = res.iter().map(|e| e.0).collect();
            let lenr = sres.obs.iter().find(|(op, _)| *op == Op::Len).map(|(_, r)| r.clone());
            if lenr != Some(Ret::Num(n_contains as u64)) && res.iter().all(|e| e.0 < cfg.keys) {
                out.push(f("len_equals_contains_count", format!("{:?}", cfg.kind), format!("len() returned {:?} but contains() is true for {} keys ({} distinct resident keys)", lenr, n_contains, n_distinct.len())));
            }
        }
        if cfg.kind == Kind::Arc {
            let p = snap.scalars[1] as usize;
            if p > cfg.caps[0] {
                out.push(Finding::new("C09", "p_in_range", "p>size", format!("p = {} outside 0..={} in state {}", p, cfg.caps[0], show(cfg, snap))));
            }
        }
        if cfg.kind == Kind::TwoQ {
            let (q, g) = qg(cfg);
            if snap.scalars[1] as usize != q || snap.scalars[2] as usize != g {
                out.push(Finding::new("C08", "quota_is_floor", "quota", format!("recent quota {} / ghost bound {} but floor(size x ratio) gives {} / {}", snap.scalars[1], snap.scalars[2], q, g)));
            }
        }
    }

    // ---- C02 (a): values carry their own key; observers agree with the snapshot
    for (li, l) in snap.lists.iter().enumerate() {
        for (k, (vk, _)) in l {
            if vk != k && *vk != 255 {
                out.push(Finding::new("C02", "value_belongs_to_key", names[li], format!("key {} holds the value of key {} in state {}", k, vk, show(cfg, snap))));
            }
        }
    }
    check_observations(cfg, snap, &sres.obs, sres.snap_after_obs.as_ref(), &sres.audit_after_obs, "", c, &mut out);

    // ---- C14
    for p in &sres.iter_problems {
        if let Some(f) = iter_panic(cfg, p) {
            out.push(f);
        }
        if let Some(f) = iter_dead(cfg, p) {
            out.push(f);
        }
        if let Some(f) = iter_alias(cfg, p) {
            out.push(f);
        }
        out.push(Finding::new("C14", "iterator_words", p.split(':').next().unwrap_or("").to_string(), format!("{} in state {}", p, show(cfg, snap))));
    }
    if let Some(after) = &sres.snap_after_iters {
        if after.canon() != snap.canon() {
            out.push(Finding::new("C14", "iterator_writes_restore", format!("{:?}", cfg.kind), format!("after the iterator checks the state is {} but it was {}", show(cfg, after), show(cfg, snap))));
        }
    }

    // ---- C16
    if let Some(cr) = &sres.clone {
        for p in &cr.problems {
            let disc = if p.contains("moment of cloning") { "snapshot" } else if p.contains("returns") || p.contains("leaves the original") { "bisimulation" } else { "independence" };
            out.push(Finding::new("C16", "clone", disc, format!("{} (original state {})", p, show(cfg, snap))));
        }
    }
    let _ = en;
    out
}

fn check_lens(cfg: &Cfg, snap: &Snap, op: &Op, r: &Ret, out: &mut Vec<Finding>) {
    let rets = match r {
        Ret::Many(v) => v,
        _ => return,
    };
    let num = |i: usize| match rets.get(i) {
        Some(Ret::Num(n)) => Some(*n as usize),
        _ => None,
    };
    let mut bad = |what: &str, got: Option<usize>, want: usize| {
        if got != Some(want) {
            out.push(Finding::new("C01", "segment_accessors", what.to_string(), format!("{} reports {:?} but the snapshot says {} in state {}", what, got, want, show(cfg, snap))));
        }
    };
    match (cfg.kind, op) {
        (Kind::TwoQ, Op::ListLens) => {
            bad("recent_len", num(0), snap.lists[0].len());
            bad("frequent_len", num(1), snap.lists[1].len());
            bad("ghost_len", num(2), snap.lists[2].len());
        }
        (Kind::Arc, Op::ListLens) => {
            bad("recent_len", num(0), snap.lists[0].len());
            bad("frequent_len", num(1), snap.lists[1].len());
            bad("recent_evict_len", num(2), snap.lists[2].len());
            bad("frequent_evict_len", num(3), snap.lists[3].len());
        }
        (Kind::Wtlfu, Op::ListLens) => {
            bad("window_cache_len", num(0), snap.lists[0].len());
            bad("window_cache_cap", num(1), cfg.caps[0]);
            bad("main_cache_len", num(2), snap.lists[1].len() + snap.lists[2].len());
            bad("main_cache_cap", num(3), cfg.caps[1] + cfg.caps[2]);
        }
        (Kind::Slru, Op::SegPeeks) => {
            bad("probationary_len", num(8), snap.lists[0].len());
            bad("protected_len", num(9), snap.lists[1].len());
            bad("probationary_cap", num(10), cfg.caps[0]);
            bad("protected_cap", num(11), cfg.caps[1]);
            let exp = [
                snap.lists[0].last().copied(),
                snap.lists[0].first().copied(),
                snap.lists[0].last().copied(),
                snap.lists[0].first().copied(),
                snap.lists[1].last().copied(),
                snap.lists[1].first().copied(),
                snap.lists[1].last().copied(),
                snap.lists[1].first().copied(),
            ];
            for (i, e) in exp.iter().enumerate() {
                if rets.get(i) != Some(&Ret::KV(*e)) {
                    out.push(Finding::new("C07", "segment_peeks", format!("peek#{}", i), format!("segment peek #{} returned {:?}, expected {:?} in state {}", i, rets.get(i), e, show(cfg, snap))));
                }
            }
        }
        _ => {}
    }
}

/// clauses about what the read-only calls return and do, for one concrete object whose snapshot is `snap`
#[allow(clippy::too_many_arguments)]
fn check_observations(cfg: &Cfg, snap: &Snap, obs: &[(Op, Ret)], after: Option<&Snap>, audit_after: &crate::driver::AuditRes, where_: &str, c: &mut Counters, out: &mut Vec<Finding>) {
    let names = list_names(cfg.kind);
    let first_new = out.len();
    let resident_val = |k: u8| -> Option<VV> {
        // lookup order of the composite caches does not matter when partitions are disjoint (C01)
        for li in resident_lists(cfg.kind) {
            if let Some(v) = val(&snap.lists[*li], k) {
                return Some(v);
            }
        }
        None
    };
    for (op, r) in obs {
        bump(c, "observer_calls");
        if ret_has_dead(r) {
            out.push(Finding::new("C03", "no_invalid_memory_handed_out", format!("{:?}/{}", cfg.kind, op_name(op)), format!("{:?} handed out a key/value that is not a live, initialised object ({:?}) in state {}", op, r, show(cfg, snap))));
        }
        if let Ret::Panic(m) = r {
            out.push(Finding::new("C05", "no_panic", format!("{:?}:{}", cfg.kind, crate::panics::location_of(m)), format!("observer {:?} panicked: {} in state {}", op, m, show(cfg, snap))));
            continue;
        }
        let expect: Option<Ret> = match *op {
            Op::Peek(k) | Op::PeekMut(k) => Some(Ret::V(resident_val(k))),
            Op::Contains(k) => Some(Ret::Bool(resident_val(k).is_some())),
            _ => None,
        };
        if let Some(e) = expect {
            if *r != e {
                out.push(Finding::new("C02", "lookup_agrees_with_contents", op_name(op), format!("{:?} returned {:?}, expected {:?} in state {}", op, r, e, show(cfg, snap))));
            }
        }
        // C06 / C14 observers of the plain LRU
        if cfg.kind == Kind::Raw {
            let l = &snap.lists[0];
            let e6: Option<Ret> = match *op {
                Op::PeekLru | Op::PeekLruMut => Some(Ret::KV(l.last().copied())),
                Op::PeekMru | Op::PeekMruMut | Op::GetMru | Op::GetMruMut => Some(Ret::KV(l.first().copied())),
                _ => None,
            };
            if let Some(e) = e6 {
                if *r != e {
                    out.push(Finding::new("C06", "ends_named_correctly", format!("{:?}", op), format!("{:?} returned {:?}, expected {:?} in state {}", op, r, e, show(cfg, snap))));
                }
            }
        }
        if *op == Op::Iters {
            if let Ret::Many(fams) = r {
                let per_list = if cfg.kind == Kind::Raw { 12 } else { 10 };
                for (i, fr) in fams.iter().enumerate() {
                    let li = i / per_list;
                    let fi = i % per_list;
                    let base = &snap.lists[li];
                    let lru = matches!(fi, 1 | 3 | 5 | 7 | 9);
                    let mut e: L = base.clone();
                    if lru {
                        e.reverse();
                    }
                    let e: L = match fi {
                        4 | 5 => e.iter().map(|x| (x.0, (254, 254))).collect(),
                        6..=9 => e.iter().map(|x| (254, x.1)).collect(),
                        _ => e,
                    };
                    if *fr != Ret::Ents(e.clone()) {
                        let prop = if cfg.kind == Kind::Raw && fi < 2 { "C06" } else { "C14" };
                        out.push(Finding::new(prop, "iteration_order", format!("{}#{}", names[li], fi), format!("iterator family #{} of {} yields {:?}, expected {:?}", fi, names[li], fr, e)));
                    }
                }
            }
        }
        if *op == Op::ListLens || *op == Op::SegPeeks {
            check_lens(cfg, snap, op, r, out);
        }
    }

    // ---- C13: observers leave the abstract state (lists, scalars, estimator) untouched
    if !obs.is_empty() {
        match after {
            Some(after) => {
                if after.canon() != snap.canon() {
                    // find the culprit class for the discriminator
                    out.push(Finding::new(
                        "C13",
                        "observers_do_not_change_state",
                        format!("{:?}", cfg.kind),
                        format!("after the read-only calls the state is {} but it was {}", show(cfg, after), show(cfg, snap)),
                    ));
                }
            }
            None => {}
        }
        for s in audit_after.dangling.iter().chain(audit_after.structural.iter()) {
            out.push(Finding::new("C03", "audit_after_observers", format!("{:?}", cfg.kind), s.clone()));
        }
    }

    if !where_.is_empty() {
        for f in &mut out[first_new..] {
            f.detail = format!("{} {}", f.detail, where_);
        }
    }
}

/// findings that come from the monitors of one execution (C03, C04, C05)
fn exec_findings(cfg: &Cfg, exec: &crate::driver::ExecReport, audit: &crate::driver::AuditRes, phase: &str, out: &mut Vec<Finding>) {
    let kind = format!("{:?}", cfg.kind);
    for d in &audit.dangling {
        out.push(Finding::new("C03", "no_dangling_node", kind.clone(), format!("{} ({})", d, phase)));
    }
    for s in &audit.structural {
        let disc = s.split(':').next().unwrap_or("").to_string();
        out.push(Finding::new("C03", "list_and_index_well_formed", format!("{}/{}", kind, disc), format!("{} ({})", s, phase)));
        // the iterators walk `next` from the head and `prev` from the tail for len() steps: if the two chains are
        // not mirror images of each other, or do not hold len() nodes, the *_lru iterators are not the reverses of
        // the others (C14) - reported without running them over a mis-linked list
        if matches!(cfg.kind, Kind::Raw | Kind::TwoQ | Kind::Arc) && (s.contains("mirror") || s.contains("prev does not point") || s.contains("tail.prev") || s.contains("nodes but the index") || s.contains("did not reach")) {
            out.push(Finding::new("C14", "iterators_need_a_well_formed_list", format!("{}/{}", kind, disc), format!("{} ({}) — back-to-front and front-to-back iteration cannot both be right", s, phase)));
        }
    }
    // an entry node is owned by exactly one list: a node registered in two indexes (or linked into two
    // chains) will be released by both of them
    for (i, (na, ia, la)) in audit.owners.iter().enumerate() {
        for (nb, ib, lb) in audit.owners.iter().skip(i + 1) {
            let both_idx = ia.iter().filter(|p| ib.contains(p)).count();
            let both_link = la.iter().filter(|p| lb.contains(p)).count();
            let cross = ia.iter().filter(|p| lb.contains(p) && !ib.contains(p)).count() + ib.iter().filter(|p| la.contains(p) && !ia.contains(p)).count();
            if both_idx + both_link + cross > 0 {
                out.push(Finding::new(
                    "C04",
                    "one_owner_per_entry",
                    format!("{}/{}+{}", kind, na, nb),
                    format!("{} entry node(s) are registered in the index of both {} and {}, {} are linked into both chains, {} are indexed by one and linked into the other ({}): each owner will release them", both_idx, na, nb, both_link, cross, phase),
                ));
            }
        }
    }
    for e in &exec.alloc_errors {
        let disc = if e.contains("double free") { "double_free" } else { "bad_free" };
        out.push(Finding::new("C03", "allocator", format!("{}/{}", kind, disc), format!("{} ({})", e, phase)));
    }
    for e in &exec.serial_errors {
        if e.contains("double drop") {
            out.push(Finding::new("C04", "dropped_exactly_once", kind.clone(), format!("{} ({})", e, phase)));
        } else {
            out.push(Finding::new("C03", "no_use_of_dead_object", kind.clone(), format!("{} ({})", e, phase)));
        }
    }
    if let Some(e) = &exec.conservation {
        out.push(Finding::new("C04", "conservation", kind.clone(), format!("{} ({})", e, phase)));
    }
    if exec.replay_error.is_none() && exec.drop_panic.is_none() && audit.dangling.is_empty() {
        if exec.live_serials_after_drop > 0 {
            out.push(Finding::new("C04", "all_released_on_drop", format!("{}/objects", kind), format!("{} key/value object(s) still alive after the cache was dropped ({})", exec.live_serials_after_drop, phase)));
        }
        if exec.leaked_blocks > 0 {
            out.push(Finding::new("C04", "all_released_on_drop", format!("{}/blocks", kind), format!("{} heap block(s) (sizes {:?}) still allocated after the cache was dropped ({})", exec.leaked_blocks, &exec.leaked_sizes[..exec.leaked_sizes.len().min(6)], phase)));
        }
    }
    if let Some(m) = &exec.drop_panic {
        out.push(Finding::new("C05", "no_panic", format!("{}:drop:{}", kind, crate::panics::location_of(m)), format!("dropping the cache panicked: {} ({})", m, phase)));
    }
}

// ------------------------------------------------------------------ transition checks

pub fn check_trans(cfg: &Cfg, pre: &Snap, probe: &Probe, op: Op, t: &TransRes, en: &BTreeSet<&'static str>, c: &mut Counters) -> Vec<Finding> {
    let mut out = t.extra.clone();
    let _ = en;
    exec_findings(cfg, &t.exec, &t.audit, &format!("after {:?}", op), &mut out);
    let ret = match &t.ret {
        Some(r) => r,
        None => return out,
    };
    let kind = format!("{:?}", cfg.kind);
    let ctx = |post: Option<&Snap>| format!("{:?} on {} returned {:?}{}", op, show(cfg, pre), ret, post.map(|p| format!(" and left {}", show(cfg, p))).unwrap_or_default());

    // ---- C05: no operation panics
    if let Ret::Panic(m) = ret {
        if m.starts_with("<hazard abort") {
            return out; // raised by the harness after a use of a dead object; reported by the monitors (C03)
        }
        out.push(Finding::new("C05", "no_panic", format!("{}:{}", kind, crate::panics::location_of(m)), format!("{:?} on {} panicked: {}", op, show(cfg, pre), m)));
        // the policy statements describe what every operation does; a panic is none of the outcomes they allow
        let policy = match cfg.kind {
            Kind::Raw => "C06",
            Kind::Slru => "C07",
            Kind::TwoQ => "C08",
            Kind::Arc => "C09",
            Kind::Wtlfu => "C10",
        };
        out.push(Finding::new(policy, "operation_completes", format!("{}:{}", kind, op_name(&op)), format!("{:?} on {} panicked instead of following the policy: {}", op, show(cfg, pre), m)));
        return out;
    }
    if *ret == Ret::NotApplicable {
        return out;
    }
    let post = match &t.post {
        Some(p) => p,
        None => return out,
    };
    bump(c, &format!("ret.{}", ret_class(ret)));
    // A policy speaks about both ends of a list (new and promoted entries at the most-recent end, victims
    // from the least-recent end). If the chain read back-to-front is not the mirror image of the chain
    // read front-to-back, "the order" the policy prescribes does not exist in this object: the snapshot
    // (read from the front) may look right while the next victim (read from the back) is wrong.
    if post.shape != 0 {
        let order: Vec<&String> = t
            .audit
            .structural
            .iter()
            .filter(|m| m.contains("prev does not point") || m.contains("mirror image") || m.contains("tail.prev") || m.contains("walk") || m.contains("appears twice") || m.contains("nodes but the index"))
            .collect();
        if !order.is_empty() {
            let policy = match cfg.kind {
                Kind::Raw => "C06",
                Kind::Slru => "C07",
                Kind::TwoQ => "C08",
                Kind::Arc => "C09",
                Kind::Wtlfu => "C10",
            };
            out.push(Finding::new(
                policy,
                "one_recency_order_from_both_ends",
                format!("{}/{}", kind, op_name(&op)),
                format!("after {:?} on {} the list has no single recency order (victims are taken from the back, the snapshot is read from the front): {:?}", op, show(cfg, pre), order),
            ));
        }
    }
    // C04: "purge releases every retained key and value" — resident and ghost alike
    if op == Op::Purge {
        let left: usize = post.lists.iter().map(|l| l.len()).sum();
        if left > 0 || !post.serials.is_empty() {
            out.push(Finding::new(
                "C04",
                "purge_releases_everything",
                kind.clone(),
                format!("after purge the cache still retains {} entr(y/ies) ({} tracked object(s)): {}", left, post.serials.len(), ctx(Some(post))),
            ));
        }
    }
    if ret_has_dead(ret) {
        out.push(Finding::new("C03", "no_invalid_memory_handed_out", format!("{}/{}", kind, op_name(&op)), format!("the call handed out a key/value that is not a live, initialised object: {}", ctx(Some(post)))));
    }
    if !t.post_obs.is_empty() {
        let none = crate::driver::AuditRes::default();
        check_observations(cfg, post, &t.post_obs, t.post_after_obs.as_ref(), &none, &format!("(in the object reached by {:?} on {})", op, show(cfg, pre)), c, &mut out);
        // len() == number of keys for which contains() is true, on this concrete object
        let n_contains = t.post_obs.iter().filter(|(o, r)| matches!(o, Op::Contains(_)) && *r == Ret::Bool(true)).count() as u64;
        let lenr = t.post_obs.iter().find(|(o, _)| *o == Op::Len).map(|(_, r)| r.clone());
        if lenr.is_some() && lenr != Some(Ret::Num(n_contains)) && post.resident(cfg.kind).iter().all(|e| e.0 < cfg.keys) {
            out.push(Finding::new("C01", "len_equals_contains_count", format!("{:?}", cfg.kind), format!("len() returned {:?} but contains() is true for {} keys: {}", lenr, n_contains, ctx(Some(post)))));
        }
    }
    if let Op::FromItems(_) = op {
        // what a conversion builds (capacity, which duplicate wins) is not specified by any property; the object it
        // builds is a reachable state and is judged as one: monitors above, state clauses and iterators here
        for p in &t.iter_problems {
            if let Some(f) = iter_panic(cfg, p) {
                out.push(f);
            }
            if let Some(f) = iter_dead(cfg, p) {
                out.push(f);
            }
            if let Some(f) = iter_alias(cfg, p) {
                out.push(f);
            }
            out.push(Finding::new("C14", "iterator_words_after_transition", p.split(':').next().unwrap_or("").to_string(), format!("{} — in the object built by {:?}", p, op)));
        }
        return out;
    }
    for p in &t.iter_problems {
        if let Some(f) = iter_panic(cfg, p) {
            out.push(f);
        }
        if let Some(f) = iter_dead(cfg, p) {
            out.push(f);
        }
        if let Some(f) = iter_alias(cfg, p) {
            out.push(f);
        }
        out.push(Finding::new("C14", "iterator_words_after_transition", p.split(':').next().unwrap_or("").to_string(), format!("{} — in the object reached by {}", p, ctx(Some(post)))));
    }

    // ---- C02 (b): frame rule and return values of lookups/removes
    {
        let f = |check: &str, disc: String, detail: String| Finding::new("C02", check, disc, detail);
        let pre_res = pre.resident(cfg.kind);
        let post_res = post.resident(cfg.kind);
        let pre_all: L = pre.lists.iter().flatten().copied().collect();
        let post_all: L = post.lists.iter().flatten().copied().collect();
        let opk = op.key();
        let writes_other: Option<u8> = match op {
            // operations that write through a reference to an entry chosen by position
            Op::GetLruMutW | Op::PeekLruMutW => pre.lists[0].last().map(|e| e.0),
            Op::GetMruMutW | Op::PeekMruMutW => pre.lists[0].first().map(|e| e.0),
            Op::SegPeekW(seg, end) => {
                let l = &pre.lists[seg as usize];
                if end == 0 {
                    l.last().map(|e| e.0)
                } else {
                    l.first().map(|e| e.0)
                }
            }
            Op::IterW(list, fam, n) => iterw_target(pre, list, fam, n).map(|(li, pi)| pre.lists[li][pi].0),
            _ => None,
        };
        if let Op::IterW(list, fam, n) = op {
            // the write lands on exactly the entry the accessor names, and is stored
            match iterw_target(pre, list, fam, n) {
                Some((li, pi)) => {
                    let e = pre.lists[li][pi];
                    let want = (e.0, (e.1 .0, e.1 .1 ^ 1));
                    if post.lists.get(li).and_then(|l| l.get(pi)) != Some(&want) || *ret != Ret::Bool(true) {
                        out.push(f("write_through_iterator_is_stored", format!("{}/{:?}", list_names(cfg.kind)[li], fam), format!("the first item of {:?} over {} should now read {:?}: {}", fam, list_names(cfg.kind)[li], want, ctx(Some(post)))));
                    }
                }
                None if n >= 100 && matches!(fam, IterFam::ValuesMut | IterFam::ValuesLruMut) => {}
                None => {
                    if *ret != Ret::Bool(false) || post.canon() != pre.canon() {
                        out.push(f("write_through_iterator_is_stored", format!("{}/{:?}/empty", list_names(cfg.kind)[list as usize], fam), format!("{:?} over an empty list yielded an item or changed something: {}", fam, ctx(Some(post)))));
                    }
                }
            }
        }
        for (k, v) in &post_all {
            match val(&pre_all, *k) {
                Some(pv) => {
                    if pv != *v && Some(*k) != opk && Some(*k) != writes_other {
                        out.push(f("no_other_value_changes", kind.clone(), format!("value of key {} changed from {:?} to {:?}: {}", k, pv, v, ctx(Some(post)))));
                    }
                }
                None => {
                    if !(op.is_put_like() && Some(*k) == opk) {
                        out.push(f("keys_enter_only_by_put", kind.clone(), format!("key {} appeared without being put: {}", k, ctx(Some(post)))));
                    }
                }
            }
        }
        match op {
            Op::Get(k) | Op::GetMut(k) => {
                let e = Ret::V(val(&pre_res, k));
                if *ret != e {
                    out.push(f("get_returns_stored_value", op_name(&op), format!("expected {:?}: {}", e, ctx(Some(post)))));
                }
                if val(&pre_res, k).is_some() && val(&post_res, k) != val(&pre_res, k) {
                    out.push(f("get_keeps_entry", kind.clone(), format!("a hit must leave the entry resident and unchanged: {}", ctx(Some(post)))));
                }
            }
            Op::GetMutW(k) | Op::PeekMutW(k) => {
                let e = val(&pre_res, k).map(|v| (v.0, v.1 ^ 1));
                if *ret != Ret::V(e) || val(&post_res, k) != e {
                    out.push(f("write_through_reference_is_stored", op_name(&op), format!("expected the entry to read {:?} afterwards: {}", e, ctx(Some(post)))));
                }
            }
            Op::Remove(k) => {
                if has(&post_all, k) {
                    out.push(f("removed_key_is_gone", kind.clone(), format!("key still retained: {}", ctx(Some(post)))));
                }
                match (val(&pre_res, k), ret) {
                    (Some(v), r) => {
                        if *r != Ret::V(Some(v)) {
                            out.push(f("remove_returns_stored_value", kind.clone(), format!("expected Some({:?}): {}", v, ctx(Some(post)))));
                        }
                    }
                    (None, Ret::V(None)) => {}
                    (None, Ret::V(Some(v))) => {
                        // a ghost's stored value may be handed back (2Q/ARC); anything else is invented
                        if val(&pre.ghosts(cfg.kind), k) != Some(*v) {
                            out.push(f("remove_returns_stored_value", kind.clone(), format!("remove of a non-resident key returned a value: {}", ctx(Some(post)))));
                        }
                    }
                    _ => {}
                }
            }
            Op::Purge => {
                if !post_all.is_empty() {
                    out.push(f("purge_empties", kind.clone(), format!("entries remain after purge: {}", ctx(Some(post)))));
                }
            }
            _ => {}
        }
        if let (true, Some(k)) = (op.is_put_like(), opk) {
            // after put(k, v) the key reads v (hit paths of *_or_put keep the old value)
            let hit_path = matches!(ret, Ret::OrPut(Some(_), None) | Ret::BoolOrPut(true, None));
            if !hit_path {
                let ver = match op {
                    Op::Put(_, v) | Op::PutProtected(_, v) | Op::PeekOrPut(_, v) | Op::PeekMutOrPut(_, v) | Op::PeekMutOrPutW(_, v) | Op::ContainsOrPut(_, v) => v,
                    _ => 0,
                };
                let zero_cap = cfg.kind == Kind::Raw && pre.scalars[0] == 0;
                if !zero_cap && val(&post_res, k) != Some((k, ver)) {
                    out.push(Finding::new("C12", "put_makes_key_resident_with_value", kind.clone(), format!("after the put key {} should read ({},{}): {}", k, k, ver, ctx(Some(post)))));
                    // the same observation is C02's "any value returned is the value most recently stored"
                    out.push(Finding::new("C02", "put_stores_the_value", kind.clone(), format!("after the put key {} should read ({},{}): {}", k, k, ver, ctx(Some(post)))));
                }
            }
        }
    }

    // ---- C12: PutResult truthfulness
    {
        let pr: Option<&PR> = match ret {
            Ret::Put(p) => Some(p),
            Ret::OrPut(None, Some(p)) | Ret::BoolOrPut(false, Some(p)) => Some(p),
            _ => None,
        };
        if let (Some(pr), Some(k)) = (pr, op.key()) {
            let pre_ret: L = pre.lists.iter().flatten().copied().collect();
            let post_keys: BTreeSet<u8> = post.lists.iter().flatten().map(|e| e.0).collect();
            let was = val(&pre_ret, k);
            // ARC never reports the entry it demotes to a ghost list, and "may discard ghost entries
            // silently" - including the entry it has just demoted (the ghost lists are trimmed in the
            // same put). So for ARC only resident entries other than the replace victim count.
            let counted: L = if cfg.kind == Kind::Arc {
                let mut scratch = Counters::new();
                let victim: Vec<u8> = arc_spec(pre, op, &mut scratch).map(|e| e.b1_head.iter().chain(e.b2_head.iter()).map(|x| x.0).collect()).unwrap_or_default();
                pre.resident(cfg.kind).into_iter().filter(|e| !victim.contains(&e.0)).collect()
            } else {
                pre_ret.clone()
            };
            let left: L = counted.iter().copied().filter(|e| e.0 != k && !post_keys.contains(&e.0)).collect();
            let zero_cap = cfg.kind == Kind::Raw && pre.scalars[0] == 0;
            let ver = match op {
                Op::Put(_, v) | Op::PutProtected(_, v) | Op::PeekOrPut(_, v) | Op::PeekMutOrPut(_, v) | Op::PeekMutOrPutW(_, v) | Op::ContainsOrPut(_, v) => v,
                _ => 0,
            };
            let expect: Option<PR> = if zero_cap {
                Some(PR::Evicted(k, (k, ver)))
            } else if left.len() > 1 {
                None
            } else {
                Some(match (was, left.first()) {
                    (None, None) => PR::Put,
                    (Some(o), None) => PR::Update(o),
                    (None, Some(e)) => PR::Evicted(e.0, e.1),
                    (Some(o), Some(e)) => PR::EvictedAndUpdate(*e, o),
                })
            };
            let variant = |p: &PR| match p {
                PR::Put => "Put",
                PR::Update(_) => "Update",
                PR::Evicted(..) => "Evicted",
                PR::EvictedAndUpdate(..) => "EvictedAndUpdate",
            };
            bump(c, &format!("putresult.{}", variant(pr)));
            match expect {
                None => out.push(Finding::new("C12", "at_most_one_entry_leaves", kind.clone(), format!("{} entries left the cache in one put ({:?}): {}", left.len(), left, ctx(Some(post))))),
                Some(e) => {
                    if *pr != e {
                        out.push(Finding::new(
                            "C12",
                            "put_result_matches_effect",
                            format!("{}:{}_instead_of_{}", kind, variant(pr), variant(&e)),
                            format!("the put's effect calls for {:?} (key was {}, entries that left: {:?}): {}", e, if was.is_some() { "retained" } else { "not retained" }, left, ctx(Some(post))),
                        ));
                    }
                }
            }
        }
    }

    // ---- policy relations
    match cfg.kind {
        Kind::Raw => {
            if let Some((eret, el, ecap)) = raw_model(&pre.lists[0], pre.scalars[0] as usize, op) {
                let prop = if matches!(op, Op::CloneReplace | Op::CloneFromReplace) { "C16" } else { "C06" };
                if *ret != eret {
                    out.push(Finding::new(prop, "lru_model.return_value", op_name(&op), format!("the LRU model returns {:?}: {}", eret, ctx(Some(post)))));
                }
                if post.lists[0] != el {
                    out.push(Finding::new(prop, "lru_model.order", op_name(&op), format!("the LRU model leaves [{}]: {}", el.iter().map(|e| format!("{}v{}", e.0, e.1 .1)).collect::<Vec<_>>().join(","), ctx(Some(post)))));
                }
                if post.scalars[0] as usize != ecap {
                    out.push(Finding::new(prop, "lru_model.capacity", op_name(&op), format!("capacity should be {}: {}", ecap, ctx(Some(post)))));
                }
            }
            // ---- C15
            if cfg.callback != 0 {
                let pre_l = &pre.lists[0];
                let post_keys: BTreeSet<u8> = post.lists[0].iter().map(|e| e.0).collect();
                // entries that left, in leaving order (LRU first), with their current values
                let mut left: L = pre_l.iter().rev().copied().filter(|e| !post_keys.contains(&e.0)).collect();
                // an entry written through a *W op before leaving does not occur (W ops never remove)
                let zero_cap_put = pre.scalars[0] == 0 && op.is_put_like();
                let ok = if zero_cap_put {
                    t.cb_log.is_empty() || (t.cb_log.len() == 1 && Some(t.cb_log[0].0) == op.key())
                } else {
                    // a put that replaces key k by itself (update) keeps k: it is in post_keys, so not in `left`
                    if let Ret::Num(_) = ret {
                        // resize: leaving order is LRU first
                    }
                    if op == Op::Purge {
                        // the order in which purge lets the entries go is not specified (only resize is said to
                        // discard the least-recent entries first): each departed entry exactly once, any order
                        let mut a = std::mem::take(&mut left);
                        let mut b = t.cb_log.clone();
                        a.sort();
                        b.sort();
                        a == b
                    } else {
                        std::mem::take(&mut left) == t.cb_log
                    }
                };
                bump(c, &format!("callback.calls_{}", t.cb_log.len().min(3)));
                if !ok {
                    let want: L = pre_l.iter().rev().copied().filter(|e| !post_keys.contains(&e.0)).collect();
                    out.push(Finding::new("C15", "callback_log_matches_departures", op_name(&op), format!("callback saw {:?} but the entries that left are {:?}: {}", t.cb_log, want, ctx(Some(post)))));
                }
            }
        }
        Kind::Slru => {
            if let Some(acc) = slru_spec(cfg, pre, op, c) {
                if !acc.iter().any(|(a, b)| *a == post.lists[0] && *b == post.lists[1]) {
                    out.push(Finding::new(
                        if matches!(op, Op::CloneReplace | Op::CloneFromReplace) { "C16" } else { "C07" },
                        "slru_relation",
                        op_name(&op),
                        format!("segmented-LRU policy allows {}: {}", acc.iter().map(|(a, b)| format!("(probationary {:?}, protected {:?})", keys_of(a), keys_of(b))).collect::<Vec<_>>().join(" or "), ctx(Some(post))),
                    ));
                }
            }
        }
        Kind::TwoQ => {
            if let Some(acc) = twoq_spec(cfg, pre, op, c) {
                if !acc.iter().any(|(a, b, g)| *a == post.lists[0] && *b == post.lists[1] && *g == post.lists[2]) {
                    out.push(Finding::new(
                        "C08",
                        "twoq_relation",
                        op_name(&op),
                        format!("2Q policy allows {}: {}", acc.iter().map(|(a, b, g)| format!("(recent {:?}, frequent {:?}, ghost {:?})", keys_of(a), keys_of(b), keys_of(g))).collect::<Vec<_>>().join(" or "), ctx(Some(post))),
                    ));
                }
            }
        }
        Kind::Arc => {
            if let Some(e) = arc_spec(pre, op, c) {
                let n = cfg.caps[0];
                let mut why = vec![];
                if post.lists[0] != e.t1 || post.lists[1] != e.t2 {
                    why.push(format!("resident lists should be recent {:?}, frequent {:?}", keys_of(&e.t1), keys_of(&e.t2)));
                }
                if let Some(p) = e.p {
                    if post.scalars[1] as usize != p {
                        why.push(format!("p should be {}", p));
                    }
                } else if post.scalars[1] as usize > n {
                    why.push(format!("p out of range"));
                }
                for (li, exp, head) in [(2usize, &e.b1, e.b1_head), (3usize, &e.b2, e.b2_head)] {
                    let obs = &post.lists[li];
                    if !is_subseq(obs, exp) {
                        why.push(format!("{} should be an order-preserving sub-sequence of {:?}", list_names(Kind::Arc)[li], keys_of(exp)));
                    }
                    if let Some(h) = head {
                        // ghost trimming is unspecified and may even discard the entry that was just
                        // demoted (size 1: the trim empties the list); but whatever remains must have
                        // the newest ghost at its MRU end
                        if !obs.is_empty() && obs.first() != Some(&h) {
                            why.push(format!("{} should have the just-evicted key {} at its MRU end", list_names(Kind::Arc)[li], h.0));
                        }
                    }
                }
                if post.lists[0].len() + post.lists[1].len() > n {
                    why.push("a full cache must make room before admitting".to_string());
                }
                if !why.is_empty() {
                    out.push(Finding::new("C09", "arc_relation", op_name(&op), format!("{}: {}", why.join("; "), ctx(Some(post)))));
                }
            }
        }
        Kind::Wtlfu => {
            if let Some(e) = wtlfu_spec(cfg, pre, probe, op, c) {
                let window_ok = match e.demoted_into_window {
                    None => post.lists[0] == e.w,
                    // same entries, the others in unchanged relative order, the demoted one anywhere
                    Some(d) => has(&post.lists[0], d.0) && without(&post.lists[0], d.0) == without(&e.w, d.0) && val(&post.lists[0], d.0) == Some(d.1),
                };
                if !window_ok || post.lists[1] != e.pb || post.lists[2] != e.pt {
                    out.push(Finding::new(
                        if matches!(op, Op::CloneReplace | Op::CloneFromReplace) { "C16" } else { "C10" },
                        "wtinylfu_relation",
                        op_name(&op),
                        format!("W-TinyLFU policy calls for window {:?}, probationary {:?}, protected {:?} (estimates {:?}): {}", keys_of(&e.w), keys_of(&e.pb), keys_of(&e.pt), probe.estimates, ctx(Some(post))),
                    ));
                }
                // estimator
                let pe = pre.est.as_ref();
                let qe = post.est.as_ref();
                if let (Some(pe), Some(qe)) = (pe, qe) {
                    match op {
                        Op::Get(k) | Op::GetMut(k) | Op::GetMutW(k) => {
                            let none = vec![];
                            let acc = probe.est_after_access.get(k as usize).unwrap_or(&none);
                            if !acc.is_empty() && !acc.iter().any(|a| a == qe) {
                                out.push(Finding::new("C10", "get_records_one_access", op_name(&op), format!("estimator after the call is none of the states one recorded access of key {} produces (with or without a sample tick, before or after it): {}", k, ctx(Some(post)))));
                            }
                        }
                        Op::Purge => {
                            let zero = qe.rows.iter().all(|r| r.iter().all(|x| *x == 0)) && qe.bitset.iter().all(|x| *x == 0) && qe.w == 0;
                            if !zero {
                                out.push(Finding::new("C10", "purge_clears_estimator", kind.clone(), format!("estimator not cleared: {}", ctx(Some(post)))));
                            }
                        }
                        _ => {
                            if pe != qe {
                                out.push(Finding::new("C10", "only_get_touches_estimator", op_name(&op), format!("estimator changed: {}", ctx(Some(post)))));
                            }
                        }
                    }
                }
            }
        }
    }
    out
}

fn keys_of(l: &[Ent]) -> Vec<u8> {
    l.iter().map(|e| e.0).collect()
}

fn ret_class(r: &Ret) -> String {
    match r {
        Ret::Put(p) => format!("{}", match p {
            PR::Put => "Put",
            PR::Update(_) => "Update",
            PR::Evicted(..) => "Evicted",
            PR::EvictedAndUpdate(..) => "EvictedAndUpdate",
        }),
        Ret::V(Some(_)) => "Some".into(),
        Ret::V(None) => "None".into(),
        Ret::KV(Some(_)) => "SomeKV".into(),
        Ret::KV(None) => "NoneKV".into(),
        Ret::Bool(b) => format!("{}", b),
        Ret::Num(_) => "Num".into(),
        Ret::OrPut(a, b) => format!("OrPut({},{})", a.is_some(), b.is_some()),
        Ret::BoolOrPut(a, b) => format!("BoolOrPut({},{})", a, b.is_some()),
        Ret::Unit => "Unit".into(),
        _ => "other".into(),
    }
}

/// which findings does the property command `prop` own?
pub fn owns(prop: &str, f: &Finding) -> bool {
    f.prop == prop
}

/// a panic inside an iterator (any interleaving of next / next_back) is a panic of a public operation (C05)
fn iter_panic(cfg: &Cfg, problem: &str) -> Option<Finding> {
    let m = problem.strip_prefix("iterator check panicked: ")?;
    Some(Finding::new("C05", "no_panic", format!("{:?}:iterator:{}", cfg.kind, crate::panics::location_of(m)), format!("an iterator panicked while being driven from both ends: {}", m)))
}

/// a *mutable* iterator that yields an entry twice has handed out two live `&mut` to one value (C19, at run time)
fn iter_alias(cfg: &Cfg, problem: &str) -> Option<Finding> {
    let fam = problem.split(':').next().unwrap_or("");
    if fam.contains("mut") && problem.contains("a second live reference to the same entry") {
        return Some(Finding::new("C19", "no_two_live_mutable_references_at_run_time", format!("{:?}/{}", cfg.kind, fam), format!("safe code obtains two live `&mut` to the same cached value: {}", problem)));
    }
    None
}

/// an iterator that yields something that is not a live key/value object has read memory it must not read (C03)
fn iter_dead(cfg: &Cfg, problem: &str) -> Option<Finding> {
    let yielded = problem.split("yielded ").nth(1).or_else(|| problem.split("yields ").nth(1))?;
    let got = yielded.split(", expected").next().unwrap_or(yielded);
    if got.contains("(255, ") || got.contains(", (255, 255))") || got.contains("(254, (255, 255))") {
        return Some(Finding::new("C03", "no_invalid_memory_handed_out", format!("{:?}/iterator", cfg.kind), format!("an iterator yielded a key/value that is not a live, initialised object: {}", problem)));
    }
    None
}

pub fn op_name(op: &Op) -> String {
    let d = format!("{:?}", op);
    d.split('(').next().unwrap_or("").to_string()
}

/// does a returned value contain a key/value read from memory that does not hold a live object?
pub fn ret_has_dead(r: &Ret) -> bool {
    let dv = |v: &VV| v.0 == 255 || v.1 == 255;
    match r {
        Ret::V(Some(v)) => dv(v),
        Ret::KV(Some((k, v))) => *k == 255 || dv(v),
        Ret::OrPut(Some(v), _) if dv(v) => true,
        Ret::Put(p) | Ret::OrPut(_, Some(p)) | Ret::BoolOrPut(_, Some(p)) => match p {
            PR::Put => false,
            PR::Update(v) => dv(v),
            PR::Evicted(k, v) => *k == 255 || dv(v),
            PR::EvictedAndUpdate((k, v), u) => *k == 255 || dv(v) || dv(u),
        },
        Ret::Many(v) => v.iter().any(ret_has_dead),
        // iterator drains: key-only items are (k,(254,254)), value-only items (254, v)
        Ret::Ents(v) => v.iter().any(|(k, val)| *k == 255 || *val == (255, 255)),
        _ => false,
    }
}
