#![allow(dead_code)]
mod alloc;
mod check;
mod driver;
mod faults;
mod grid;
mod lfu;
mod miri;
mod plan;
mod probes;
mod replay_aux;
mod engine;
mod hashers;
mod iters;
mod ops;
mod oracle;
mod panics;
mod subjects;
mod sweeps;
mod zst;
mod track;

#[global_allocator]
static GLOBAL: alloc::Registry = alloc::Registry;

use ops::*;
use std::collections::BTreeSet;

fn main() {
    panics::install();
    let args: Vec<String> = std::env::args().collect();
    if args.get(1).map(|s| s.as_str()) == Some("explore") {
        // mc explore <kind> <caps,comma> <keys> [versions] [tracked] [props,comma]
        let kind = match args[2].as_str() {
            "raw" => Kind::Raw,
            "slru" => Kind::Slru,
            "2q" => Kind::TwoQ,
            "arc" => Kind::Arc,
            _ => Kind::Wtlfu,
        };
        let caps: Vec<usize> = args[3].split(',').map(|x| x.parse().unwrap()).collect();
        let keys: u8 = args[4].parse().unwrap();
        let mut cfg = Cfg::base(kind, &caps, keys);
        cfg.versions = args.get(5).map(|x| x.parse().unwrap()).unwrap_or(1);
        if args.get(6).map(|x| x.as_str()) == Some("tracked") {
            cfg.key_ty = KeyTy::Tracked;
        }
        if kind == Kind::Raw {
            cfg.resize = (0..=caps[0] as u8 + 1).collect();
            cfg.with_clone = true;
        }
        let all = ["C01", "C02", "C03", "C04", "C05", "C06", "C07", "C08", "C09", "C10", "C12", "C13", "C14", "C15", "C16", "C17"];
        let props: BTreeSet<&'static str> = match args.get(7) {
            Some(p) => all.iter().copied().filter(|a| p.split(',').any(|x| x == *a)).collect(),
            None => all.iter().copied().collect(),
        };
        let want = driver::Wants { observers: true, iters: props.contains("C14"), clone_check: props.contains("C16"), track_alloc: true, probe: kind == Kind::Wtlfu, clone_ops: mutators(&cfg) };
        let d = driver::make_driver(&cfg);
        let ex = engine::explore(d.as_ref(), &props, &want, &engine::Limits::default());
        println!("{}: states={} transitions={} executions={} depth={} closed={} capped={:?} secs={:.2} digest={:x}", ex.label, ex.states, ex.transitions, ex.executions, ex.max_depth, ex.closed, ex.capped, ex.secs, ex.digest);
        for e in &ex.machinery_errors {
            println!("MACHINERY: {}", e);
        }
        for v in &ex.violations {
            println!("VIOLATION {} {} [{}] x{}\n    history={:?} op={:?}\n    {}", v.finding.prop, v.finding.check, v.finding.disc, v.count, v.history, v.failing_op, v.finding.detail);
        }
        for (k, v) in &ex.counters {
            println!("  {:60} {}", k, v);
        }
        return;
    }
    match args.get(1).map(|s| s.as_str()) {
        Some("check") => {
            let prop = match args.get(2).and_then(|p| check::static_id(p)) {
                Some(p) => p,
                None => {
                    eprintln!("unknown property id");
                    std::process::exit(2);
                }
            };
            let mut tier = match std::env::var("VERIF_TIER").ok().as_deref() {
                Some("thorough") => plan::Tier::Thorough,
                _ => plan::Tier::Quick,
            };
            let mut i = 3;
            while i < args.len() {
                if args[i] == "--tier" {
                    tier = if args.get(i + 1).map(|s| s.as_str()) == Some("thorough") { plan::Tier::Thorough } else { plan::Tier::Quick };
                    i += 1;
                }
                i += 1;
            }
            let seed: u64 = std::env::var("VERIF_SEED").ok().and_then(|s| s.parse().ok()).unwrap_or(0);
            std::process::exit(check::run(prop, tier, seed));
        }
        Some("replay") => std::process::exit(check::replay(&args[2])),
        // C03 thorough, Miri leg: `mc miri-dump <file>` (native) writes every transition of the tiny closures as
        // (configuration, history, op); `mc miri-replay <file>` (under `cargo miri run`) re-executes each of them
        Some("miri-dump") => std::process::exit(miri::dump(&args[2])),
        Some("miri-replay") => {
            let shard = args.get(3).and_then(|x| x.parse().ok()).unwrap_or(0);
            let shards = args.get(4).and_then(|x| x.parse().ok()).unwrap_or(1);
            std::process::exit(miri::replay(&args[2], shard, shards))
        }
        _ => {}
    }
    eprintln!("usage: mc check <ID> [--tier quick|thorough] | mc replay <file> | mc explore ...");
    std::process::exit(2);
}
