//! Which closures each property explores, per tier (DESIGN §5).
use crate::driver::Wants;
use crate::hashers::{HKind, KHKind};
use crate::ops::*;

#[derive(Clone, Copy, PartialEq, Eq, Debug)]
pub enum Tier {
    Quick,
    Thorough,
}

#[derive(Clone, Debug)]
pub struct RunSpec {
    pub cfg: Cfg,
    pub want: Wants,
    /// lock-step legs under other hashers (C17); empty = single run
    pub hashers: Vec<HKind>,
    /// abstraction-adequacy check on duplicate hits (C17)
    pub adequacy: bool,
    pub adequacy_depth: usize,
    pub max_depth: usize,
}

fn spec(cfg: Cfg, want: Wants) -> RunSpec {
    RunSpec { cfg, want, hashers: vec![], adequacy: false, adequacy_depth: 1, max_depth: usize::MAX }
}

/// every other configuration of a menu is constructed through the second builder path
fn alternate_builders(mut v: Vec<Cfg>) -> Vec<Cfg> {
    for (i, c) in v.iter_mut().enumerate() {
        if c.kind != Kind::Raw && i % 2 == 1 {
            c.builder_path = 1;
        }
    }
    v
}

fn raw(cap: usize, extra_keys: u8, versions: u8) -> Cfg {
    let mut c = Cfg::base(Kind::Raw, &[cap], cap as u8 + extra_keys);
    c.versions = versions;
    c.resize = (0..=(cap as u8 + 1)).collect();
    c.resize.push(255); // 255 stands for resize(usize::MAX): "resize to any value"
    c.with_clone = true;
    c
}
fn slru(pb: usize, pt: usize, versions: u8) -> Cfg {
    let mut c = Cfg::base(Kind::Slru, &[pb, pt], (pb + pt + 1) as u8);
    c.versions = versions;
    c.with_clone = true;
    c
}
fn twoq(n: usize, rr: f64, gr: f64, versions: u8) -> Cfg {
    let g = ((n as f64) * gr).floor() as usize;
    let mut c = Cfg::base(Kind::TwoQ, &[n], std::cmp::min(n + g + 1, 6) as u8);
    c.ratios = (rr, gr);
    c.versions = versions;
    c
}
fn arc(n: usize, versions: u8) -> Cfg {
    let mut c = Cfg::base(Kind::Arc, &[n], std::cmp::min(2 * n + 1, 6) as u8);
    c.versions = versions;
    c
}
fn wtlfu(w: usize, pt: usize, pb: usize, samples: usize, seeds: [u64; 4], kh: KHKind) -> Cfg {
    let mut c = Cfg::base(Kind::Wtlfu, &[w, pt, pb], (w + pt + pb + 1) as u8);
    c.samples = samples;
    c.seeds = seeds;
    c.kh = kh;
    c.with_clone = false;
    c
}

pub const SEEDS: [[u64; 4]; 4] = [[1, 2, 3, 4], [0, 0, 0, 0], [0, 1, 1 << 32, u64::MAX], [0x9e3779b97f4a7c15, 0xbf58476d1ce4e5b9, 0x94d049bb133111eb, 0x2545f4914f6cdd1d]];

fn keys(mut c: Cfg, k: u8) -> Cfg {
    c.keys = k;
    c
}

/// 2Q (size, recent ratio, ghost ratio) corners; all construct successfully (ghost bound >= 1)
fn twoq_menu(tier: Tier) -> Vec<(usize, f64, f64)> {
    let mut v = vec![
        (2, 0.25, 0.5), // quota floors to 0
        (3, 0.25, 0.5),
        (4, 0.25, 0.5),
        (1, 0.5, 1.0), // size 1: quota 0, ghost 1
        (1, 1.0, 1.0),
        (2, 0.0, 0.5),
        (2, 1.0, 0.5), // quota == size
        (2, 0.5, 1.0),
        (3, 0.34, 0.34),
        (3, 1.0, 1.0),
        (3, 0.0, 1.0),
    ];
    if tier == Tier::Thorough {
        v.extend([(4, 0.0, 0.5), (4, 1.0, 0.5), (4, 0.5, 1.0), (4, 0.5, 0.25), (5, 0.25, 0.5), (5, 0.4, 0.2)]);
    }
    v
}

fn wtlfu_menu(tier: Tier) -> Vec<Cfg> {
    let mut two = wtlfu(1, 1, 1, 3, SEEDS[0], KHKind::Spread);
    two.versions = 2;
    two.keys = 3;
    let mut v = vec![
        two,
        wtlfu(1, 1, 1, 3, SEEDS[0], KHKind::Identity),
        wtlfu(1, 1, 1, 3, SEEDS[1], KHKind::Spread),
        wtlfu(1, 2, 1, 3, SEEDS[0], KHKind::Spread),
        wtlfu(1, 1, 2, 3, SEEDS[0], KHKind::Identity),
        {
            // clone-and-continue on asymmetric segments (a clone that mixes up the two sizes mis-decides demotions)
            let mut c = wtlfu(1, 1, 2, 3, SEEDS[1], KHKind::Spread);
            c.with_clone = true;
            c.keys = 4;
            c
        },
        wtlfu(1, 1, 2, 2, SEEDS[3], KHKind::Spread),
        wtlfu(1, 2, 2, 4, SEEDS[0], KHKind::Spread),
        wtlfu(2, 1, 1, 5, SEEDS[2], KHKind::Spread),
        // every key hashes alike: all estimates are equal, "rejected only if strictly lower" must admit
        wtlfu(1, 1, 1, 3, SEEDS[0], KHKind::Constant),
    ];
    if tier == Tier::Thorough {
        for (w, pt, pb) in [(1, 2, 2), (2, 2, 1), (2, 1, 2), (2, 2, 2)] {
            v.push(wtlfu(w, pt, pb, 3, SEEDS[0], KHKind::Spread));
        }
        for s in [2usize, 4, 5] {
            for (si, seeds) in SEEDS.iter().enumerate() {
                v.push(wtlfu(1, 1, 1, s, *seeds, if si % 2 == 0 { KHKind::Identity } else { KHKind::Spread }));
            }
        }
        v.push(keys(wtlfu(2, 2, 2, 3, SEEDS[0], KHKind::Identity), 7));
        v.push(keys(wtlfu(1, 2, 3, 5, SEEDS[3], KHKind::Spread), 7));
        v.push(keys(wtlfu(3, 1, 2, 4, SEEDS[2], KHKind::Identity), 7));
        v.push(wtlfu(1, 2, 1, 7, SEEDS[3], KHKind::Identity));
    }
    v
}

/// the "policy" menu: every kind, fast types, one value version
fn policy_menu(kind: Kind, tier: Tier) -> Vec<Cfg> {
    let mut v = alternate_builders(policy_menu_inner(kind, tier));
    v.extend(default_ctor_menu(kind, tier));
    v
}

/// the constructors that take no hasher (`new`, `with_recent_ratio`, `with_ghost_ratio`,
/// `with_2q_parameters`): their own argument plumbing is part of "every accepted configuration"
fn default_ctor_menu(kind: Kind, tier: Tier) -> Vec<Cfg> {
    let path = |mut c: Cfg, p: u8| {
        c.builder_path = p;
        c.with_clone = false;
        c
    };
    let big = tier == Tier::Thorough;
    match kind {
        Kind::Slru => {
            let mut v = vec![path(slru(1, 2, 1), 2), path(slru(2, 1, 1), 2)];
            if big {
                v.push(path(slru(2, 3, 1), 2));
                v.push(path(slru(3, 1, 2), 6));
            }
            v
        }
        Kind::Arc => {
            let mut v = vec![path(arc(2, 1), 2)];
            if big {
                v.push(path(arc(1, 2), 2));
                v.push(path(arc(3, 1), 6));
            }
            v
        }
        Kind::TwoQ => {
            let mut v = vec![
                path(twoq(2, 0.25, 0.5, 1), 2),
                path(twoq(4, 0.25, 0.5, 1), 2),
                path(twoq(3, 0.75, 0.5, 1), 3), // with_recent_ratio(3, 0.75): quota 2, ghost bound 1
                path(twoq(4, 1.0, 0.5, 1), 3),
                path(twoq(2, 0.0, 0.5, 1), 3),
                path(twoq(3, 0.25, 1.0, 1), 4), // with_ghost_ratio(3, 1.0): quota 0, ghost bound 3
                path(twoq(4, 0.25, 0.75, 1), 4),
                path(twoq(3, 0.67, 0.34, 1), 5),
            ];
            if big {
                v.push(path(twoq(5, 0.6, 0.5, 1), 3));
                v.push(path(twoq(5, 0.25, 0.8, 1), 4));
                v.push(path(twoq(4, 0.5, 0.25, 2), 5));
                v.push(path(twoq(3, 0.25, 0.5, 2), 6));
            }
            v
        }
        _ => vec![],
    }
}

fn policy_menu_inner(kind: Kind, tier: Tier) -> Vec<Cfg> {
    match kind {
        Kind::Raw => {
            let mut v = vec![raw(1, 1, 1), raw(2, 1, 1), raw(3, 1, 1), raw(2, 2, 2)];
            if tier == Tier::Thorough {
                v.extend([raw(4, 1, 1), raw(3, 2, 2), raw(4, 2, 1), raw(1, 2, 2), raw(4, 2, 2), raw(5, 1, 1), raw(5, 2, 1), raw(6, 2, 1)]);
            }
            v
        }
        Kind::Slru => {
            let mut v = vec![];
            let r: &[usize] = if tier == Tier::Thorough { &[1, 2, 3] } else { &[1, 2] };
            for pb in r {
                for pt in r {
                    v.push(slru(*pb, *pt, 1));
                }
            }
            if tier == Tier::Thorough {
                v.push(slru(2, 2, 2));
                v.push(slru(1, 3, 2));
                v.push(slru(3, 2, 2));
                v.push(keys(slru(3, 3, 1), 8));
                v.push(keys(slru(2, 4, 1), 8));
                v.push(keys(slru(4, 2, 1), 8));
                v.push(keys(slru(3, 4, 1), 8));
                v.push(keys(slru(4, 3, 1), 8));
                v.push(slru(2, 3, 2));
            } else {
                v.push(slru(1, 1, 2));
            }
            v
        }
        Kind::TwoQ => {
            let mut v: Vec<Cfg> = twoq_menu(tier).into_iter().map(|(n, rr, gr)| twoq(n, rr, gr, 1)).collect();
            // two value versions, so that a stale or misplaced value is visible
            v.push(twoq(2, 0.25, 0.5, 2));
            v.push(twoq(2, 0.5, 1.0, 2));
            if tier == Tier::Thorough {
                v.push(keys(twoq(4, 0.25, 0.5, 1), 7));
                v.push(keys(twoq(5, 0.25, 0.5, 1), 8));
                v.push(keys(twoq(4, 0.5, 0.5, 1), 7));
                v.push(keys(twoq(6, 0.34, 0.34, 1), 8));
                v.push(twoq(3, 0.34, 0.34, 2));
                v.push(twoq(3, 1.0, 0.34, 2));
            }
            v
        }
        Kind::Arc => {
            let mut v = vec![arc(1, 1), arc(2, 1), arc(3, 1), arc(1, 2), arc(2, 2)];
            if tier == Tier::Thorough {
                v.push(keys(arc(4, 1), 6));
                v.push(keys(arc(3, 1), 7));
                v.push(keys(arc(4, 1), 7));
                v.push(keys(arc(5, 1), 7));
                v.push(keys(arc(3, 2), 5));
            }
            v
        }
        Kind::Wtlfu => wtlfu_menu(tier),
    }
}

/// Capacities far beyond what a closure can cover: start from a pre-filled cache (several shapes) and
/// explore a relative alphabet (ends of every list, a key new to the cache) to a bounded depth.
fn large_menu(kind: Kind, tier: Tier) -> Vec<(Cfg, usize)> {
    let puts = |a: u8, b: u8| -> Vec<Op> { (a..b).map(|k| Op::Put(k, 0)).collect() };
    let gets = |a: u8, b: u8| -> Vec<Op> { (a..b).map(Op::Get).collect() };
    let depth = if tier == Tier::Thorough { 8 } else { 6 };
    let mut v: Vec<(Cfg, usize)> = vec![];
    let mut mk = |mut c: Cfg, prefill: Vec<Op>, v: &mut Vec<(Cfg, usize)>| {
        c.relative = true;
        c.prefill = prefill;
        c.with_clone = false;
        c.resize = vec![];
        v.push((c, depth));
    };
    match kind {
        Kind::Raw => {
            mk(Cfg::base(Kind::Raw, &[12], 16), puts(0, 12), &mut v);
            mk(Cfg::base(Kind::Raw, &[33], 40), puts(0, 33), &mut v);
        }
        Kind::Slru => {
            mk(Cfg::base(Kind::Slru, &[8, 8], 20), puts(0, 8), &mut v);
            let mut both = puts(0, 8);
            both.extend(gets(0, 8));
            both.extend(puts(8, 16));
            mk(Cfg::base(Kind::Slru, &[8, 8], 20), both, &mut v);
            let mut asym = puts(0, 3);
            asym.extend(gets(0, 3));
            asym.extend(puts(3, 12));
            asym.extend(gets(3, 9));
            mk(Cfg::base(Kind::Slru, &[3, 9], 16), asym, &mut v);
        }
        Kind::TwoQ => {
            mk(Cfg::base(Kind::TwoQ, &[12], 24), puts(0, 12), &mut v);
            mk(Cfg::base(Kind::TwoQ, &[12], 24), puts(0, 18), &mut v);
            let mut half = puts(0, 12);
            half.extend(gets(0, 6));
            half.extend(puts(12, 15));
            mk(Cfg::base(Kind::TwoQ, &[12], 24), half, &mut v);
            let mut c = Cfg::base(Kind::TwoQ, &[10], 24);
            c.ratios = (0.5, 1.0);
            let mut h = puts(0, 20);
            h.extend(gets(12, 16));
            mk(c, h, &mut v);
        }
        Kind::Arc => {
            mk(Cfg::base(Kind::Arc, &[8], 20), puts(0, 8), &mut v);
            let mut g = puts(0, 8);
            g.extend(gets(0, 4));
            g.extend(puts(8, 14));
            mk(Cfg::base(Kind::Arc, &[8], 20), g.clone(), &mut v);
            // ghost hits on both sides so that p is strictly inside (0, size)
            g.extend([Op::Put(4, 0), Op::Put(5, 0), Op::Put(14, 0), Op::Put(15, 0), Op::Put(0, 0)]);
            mk(Cfg::base(Kind::Arc, &[8], 20), g, &mut v);
            // ghost lists of sizes 2 and 3 with p = 2 < size: |B2| / |B1| is not an integer, so a recent-ghost hit
            // tells floor from ceiling (and the cap at size does not hide it)
            let h: Vec<Op> = [5u8, 4, 7, 2, 1].iter().map(|k| Op::Put(*k, 0)).chain([Op::Get(2)]).chain([9u8, 7, 3, 4, 10, 5, 6].iter().map(|k| Op::Put(*k, 0))).collect();
            mk(Cfg::base(Kind::Arc, &[4], 12), h, &mut v);
            // |B1| = 1, |B2| = 3, p = 2 < size 4: the next recent-ghost hit wants to add 3 to p, so the clamp
            // `p + delta > size` has to be taken with the real delta (round 7: a clamp tested with delta = 1
            // lets p pass size, and the next miss underflows `size - p`)
            let h: Vec<Op> = [2u8, 1, 7, 1, 0, 4, 2, 6, 6, 7, 8, 5, 0].iter().map(|k| Op::Put(*k, 0)).collect();
            mk(Cfg::base(Kind::Arc, &[4], 12), h, &mut v);
        }
        Kind::Wtlfu => {
            let mut c = Cfg::base(Kind::Wtlfu, &[2, 6, 4], 16);
            c.samples = 40;
            c.kh = KHKind::Spread;
            mk(c.clone(), puts(0, 12), &mut v);
            let mut h = puts(0, 12);
            h.extend(gets(0, 6));
            h.extend(gets(0, 3));
            h.extend(puts(12, 14));
            mk(c, h, &mut v);
            // estimates at the top of their range: the probationary victim has been seen 16 times (counter 15 plus
            // the doorkeeper bit), the window's next victim 15 times, the main cache is full - the admission contest
            // has to tell 15 from 16
            let mut c = Cfg::base(Kind::Wtlfu, &[1, 1, 1], 8);
            c.samples = 64;
            c.kh = KHKind::Identity;
            let mut h: Vec<Op> = (0..16).map(|_| Op::Get(1)).collect();
            h.push(Op::Put(1, 0));
            h.extend((0..15).map(|_| Op::Get(3)));
            h.extend([Op::Put(2, 0), Op::Put(2, 0), Op::Put(3, 0)]);
            mk(c, h, &mut v);
        }
    }
    v
}

const ALL_KINDS: [Kind; 5] = [Kind::Raw, Kind::Slru, Kind::TwoQ, Kind::Arc, Kind::Wtlfu];

fn obs_want() -> Wants {
    Wants { observers: true, probe: true, ..Default::default() }
}

/// small configurations with two value versions (coherence, ownership, memory safety)
fn small_menu(kind: Kind, tier: Tier) -> Vec<Cfg> {
    alternate_builders(small_menu_inner(kind, tier))
}

fn small_menu_inner(kind: Kind, tier: Tier) -> Vec<Cfg> {
    match kind {
        Kind::Raw => {
            let mut v = vec![raw(1, 1, 2), raw(2, 1, 2)];
            if tier == Tier::Thorough {
                v.extend([raw(3, 1, 2), raw(2, 2, 2)]);
            }
            v
        }
        Kind::Slru => {
            let mut v = vec![slru(1, 1, 2), slru(2, 1, 1), slru(1, 2, 1)];
            if tier == Tier::Thorough {
                v.extend([slru(2, 1, 2), slru(1, 2, 2), slru(2, 2, 1)]);
            }
            v
        }
        Kind::TwoQ => {
            let mut v = vec![twoq(2, 0.25, 0.5, 2), twoq(1, 0.5, 1.0, 2), twoq(2, 1.0, 0.5, 1), twoq(3, 0.25, 0.5, 1)];
            if tier == Tier::Thorough {
                v.extend([twoq(3, 0.34, 0.34, 2), twoq(2, 0.5, 1.0, 2), twoq(4, 0.25, 0.5, 1)]);
            }
            v
        }
        Kind::Arc => {
            let mut v = vec![arc(1, 2), arc(2, 1)];
            if tier == Tier::Thorough {
                v.extend([arc(2, 2), arc(3, 1)]);
            }
            v
        }
        Kind::Wtlfu => {
            let mut a = wtlfu(1, 1, 1, 3, SEEDS[0], KHKind::Spread);
            a.versions = 2;
            a.keys = 3;
            let mut v = vec![a, wtlfu(1, 1, 1, 2, SEEDS[0], KHKind::Identity)];
            if tier == Tier::Thorough {
                v.push(wtlfu(1, 2, 1, 3, SEEDS[0], KHKind::Spread));
                v.push(wtlfu(2, 1, 1, 3, SEEDS[1], KHKind::Identity));
            }
            v
        }
    }
}

pub fn plan(prop: &str, tier: Tier) -> Vec<RunSpec> {
    let mut out = vec![];
    match prop {
        "C01" | "C12" | "C13" => {
            if !cfg!(feature = "std") {
                // no_std flavour (C01 only is run on it): the bounds of 2Q come out of the crate's own floor polyfill
                // there; its closures are repeated, everything else is feature-independent
                for c in policy_menu(Kind::TwoQ, tier) {
                    out.push(spec(c, obs_want()));
                }
                return out;
            }
            for k in ALL_KINDS {
                for c in policy_menu(k, tier) {
                    out.push(spec(c, obs_want()));
                }
                for (c, d) in large_menu(k, tier) {
                    let mut s = spec(c, obs_want());
                    // one level less than in the per-policy properties: these three run all five cache types
                    s.max_depth = d - 1;
                    out.push(s);
                }
            }
        }
        "C05" => {
            for k in ALL_KINDS {
                for c in policy_menu(k, tier) {
                    out.push(spec(c, obs_want()));
                }
                for (c, d) in large_menu(k, tier).into_iter().take(1) {
                    let mut s = spec(c, obs_want());
                    s.max_depth = d - 2;
                    out.push(s);
                }
                if k == Kind::Arc {
                    // the two roots with uneven ghost lists: the adaptation arithmetic (division, clamp, `size - p`)
                    // is where an ARC operation can panic
                    let roots = large_menu(k, tier);
                    let n = roots.len();
                    for (c, d) in roots.into_iter().skip(n - 2) {
                        let mut s = spec(c, obs_want());
                        s.max_depth = d - 2;
                        out.push(s);
                    }
                }
            }
            // iterators driven from both ends (every word of next / next_back up to len+2) and the conversions,
            // including sources whose size hint is not exact, are public operations too
            for mut c in [raw(2, 1, 1), raw(3, 1, 1), twoq(2, 0.5, 1.0, 1), arc(2, 1)] {
                c.with_clone = false;
                c.conversions = c.kind == Kind::Raw;
                c.lean_ops = c.kind != Kind::Raw;
                if c.kind == Kind::Raw {
                    c.resize = vec![1];
                }
                let mut w = obs_want();
                w.iters = true;
                out.push(spec(c, w));
            }
        }
        "C06" => {
            for c in policy_menu(Kind::Raw, tier) {
                out.push(spec(c, obs_want()));
            }
            // the same policy with an eviction callback installed (both constructors that take one): the
            // callback must not change what is evicted, returned or counted
            for cb in [2u8, 1u8] {
                let mut c = raw(2, 1, 1);
                c.callback = cb;
                c.with_clone = cb == 2;
                out.push(spec(c, obs_want()));
            }
            if !cfg!(feature = "std") {
                return out;
            }
            for (c, d) in large_menu(Kind::Raw, tier) {
                let mut s = spec(c, obs_want());
                s.max_depth = d;
                out.push(s);
            }
        }
        "C07" => {
            for c in policy_menu(Kind::Slru, tier) {
                out.push(spec(c, obs_want()));
            }
            for (c, d) in large_menu(Kind::Slru, tier) {
                let mut s = spec(c, obs_want());
                s.max_depth = d;
                out.push(s);
            }
        }
        "C08" => {
            for c in policy_menu(Kind::TwoQ, tier) {
                out.push(spec(c, obs_want()));
            }
            if !cfg!(feature = "std") {
                // no_std flavour (its own floor/ceil polyfills decide the quota): closures and sweeps only
                return out;
            }
            for (c, d) in large_menu(Kind::TwoQ, tier) {
                let mut s = spec(c, obs_want());
                s.max_depth = d;
                out.push(s);
            }
        }
        "C09" => {
            for c in policy_menu(Kind::Arc, tier) {
                out.push(spec(c, obs_want()));
            }
            for (c, d) in large_menu(Kind::Arc, tier) {
                let mut s = spec(c, obs_want());
                s.max_depth = d;
                out.push(s);
            }
        }
        "C10" => {
            for c in policy_menu(Kind::Wtlfu, tier) {
                out.push(spec(c, obs_want()));
            }
            if !cfg!(feature = "std") {
                // the no_std flavour of the crate has its own count-min sketch: the closures above are
                // repeated on it (./check runs this build first), the large pre-filled roots are not
                return out;
            }
            for (c, d) in large_menu(Kind::Wtlfu, tier) {
                let mut s = spec(c, obs_want());
                s.max_depth = d;
                out.push(s);
            }
        }
        "C02" => {
            // both key types; hashers including the all-collide one
            let hashers: &[HKind] = if tier == Tier::Thorough { &[HKind::SipA, HKind::Zero, HKind::Identity, HKind::Fnv, HKind::SipB] } else { &[HKind::SipA, HKind::Zero] };
            for k in ALL_KINDS {
                for c in small_menu(k, tier) {
                    for (i, h) in hashers.iter().enumerate() {
                        for kt in [KeyTy::U64, KeyTy::Tracked] {
                            // the tracked key type under every hasher, the integer one under the first two
                            if kt == KeyTy::U64 && i >= 2 {
                                continue;
                            }
                            let mut c = c.clone();
                            c.hasher = *h;
                            c.key_ty = kt;
                            out.push(spec(c, obs_want()));
                        }
                    }
                }
            }
        }
        "C03" | "C04" => {
            let hashers: &[HKind] = if tier == Tier::Thorough { &[HKind::SipA, HKind::Zero, HKind::Identity] } else { &[HKind::SipA, HKind::Zero] };
            for k in ALL_KINDS {
                let mut menu = small_menu(k, tier);
                if k == Kind::Raw {
                    // the callback variant has its own release paths (remove / remove_lru / eviction)
                    let mut cb = raw(2, 1, 1);
                    cb.callback = 2;
                    menu.push(cb);
                    let mut cb1 = raw(1, 1, 2);
                    cb1.callback = 2;
                    menu.push(cb1);
                }
                if prop == "C04" && matches!(k, Kind::Raw | Kind::TwoQ | Kind::Arc | Kind::Slru) {
                    // drop glue on one side only: tracked keys with plain values, and the reverse
                    for kt in [KeyTy::TrackedKeys, KeyTy::TrackedVals] {
                        let mut c = small_menu(k, Tier::Quick)[0].clone();
                        c.key_ty = kt;
                        c.versions = 1;
                        let mut w = obs_want();
                        w.track_alloc = true;
                        out.push(spec(c, w));
                    }
                }
                if tier == Tier::Thorough {
                    menu.extend(policy_menu(k, Tier::Quick));
                }
                for (ci, c) in menu.into_iter().enumerate() {
                    for (hi, h) in hashers.iter().enumerate() {
                        let mut c = c.clone();
                        c.hasher = *h;
                        c.key_ty = KeyTy::Tracked;
                        // C03: the iterators read the nodes too (clones, both ends, the provided adaptors)
                        let iters = prop == "C03" && ci == 0 && hi == 0 && matches!(k, Kind::Raw | Kind::TwoQ | Kind::Arc);
                        // conversions build caches too (under the first hasher; the converted cache uses the default one)
                        c.conversions = k == Kind::Raw && c.callback == 0 && hi == 0;
                        let mut w = obs_want();
                        w.track_alloc = true;
                        w.clone_check = false;
                        w.iters = iters;
                        out.push(spec(c, w));
                    }
                }
            }
        }
        "C14" => {
            for k in [Kind::Raw, Kind::TwoQ, Kind::Arc] {
                let menu: Vec<Cfg> = match (k, tier) {
                    (Kind::Raw, Tier::Quick) => vec![raw(1, 1, 1), raw(2, 1, 1), raw(3, 1, 1)],
                    (Kind::Raw, Tier::Thorough) => vec![raw(1, 1, 1), raw(2, 1, 2), raw(3, 1, 1), raw(4, 1, 1), raw(3, 2, 2), raw(5, 1, 1), raw(6, 1, 1)],
                    (Kind::TwoQ, Tier::Quick) => vec![twoq(2, 0.25, 0.5, 1), twoq(3, 0.34, 0.34, 1)],
                    (Kind::TwoQ, Tier::Thorough) => vec![twoq(2, 0.25, 0.5, 1), twoq(3, 0.34, 0.34, 1), twoq(3, 1.0, 1.0, 1), twoq(4, 0.25, 0.5, 1), twoq(4, 0.5, 1.0, 1), twoq(3, 0.34, 0.34, 2), twoq(5, 0.4, 0.4, 1)],
                    (Kind::Arc, Tier::Quick) => vec![arc(1, 1), arc(2, 1)],
                    _ => vec![arc(1, 1), arc(2, 1), arc(3, 1), arc(2, 2), keys(arc(4, 1), 6)],
                };
                for mut c in menu {
                    // states built by clone / clone_from / the conversions are reachable states as well
                    c.with_clone = k == Kind::Raw;
                    c.conversions = k == Kind::Raw;
                    // the plain LRU keeps its full operation set: get_lru(_mut), *_or_put, resize relink the
                    // list in their own ways, and a mis-linked list shows first in the back-to-front iterators
                    c.lean_ops = k != Kind::Raw;
                    if k == Kind::Raw {
                        c.resize = vec![1, (c.caps[0] + 1) as u8];
                    }
                    let mut w = obs_want();
                    w.iters = true;
                    out.push(spec(c, w));
                }
            }
        }
        "C19" => {
            // the run-time side of "no two live mutable references to the same value": the mutable iterators, driven
            // from both ends and through the provided adaptors, never hand out an entry twice
            for mut c in [raw(3, 1, 1), raw(5, 1, 1), twoq(3, 0.34, 0.34, 1), arc(2, 1)] {
                c.with_clone = false;
                c.lean_ops = true;
                c.resize = vec![];
                let mut w = obs_want();
                w.iters = true;
                out.push(spec(c, w));
            }
        }
        "C15" => {
            for cb in [2u8, 1u8] {
                let caps: &[(usize, u8, u8)] = if tier == Tier::Thorough { &[(1, 1, 2), (2, 1, 2), (3, 1, 1), (4, 1, 1), (2, 2, 1), (3, 2, 2), (5, 1, 1), (4, 2, 1), (6, 1, 1)] } else { &[(1, 1, 2), (2, 1, 2), (3, 1, 1)] };
                for (cap, extra, ver) in caps {
                    let mut c = raw(*cap, *extra, *ver);
                    c.callback = cb;
                    if cb == 1 {
                        c.hasher = HKind::Random;
                    }
                    // hidden state (e.g. whether the callback is still installed) is not part of the
                    // abstract state: the adequacy pass compares histories that merge, callback log included
                    let mut sp = spec(c, obs_want());
                    sp.adequacy = *cap <= 3;
                    // two further steps on the smallest configuration (e.g. a lost callback only shows at the
                    // next eviction, which needs a refill first)
                    if *cap == 1 {
                        sp.cfg.lean_ops = true;
                        sp.cfg.with_clone = false;
                        sp.cfg.resize = vec![0, 2];
                        sp.adequacy_depth = 3;
                    }
                    out.push(sp);
                }
            }
        }
        "C16" => {
            for k in [Kind::Raw, Kind::Slru, Kind::Wtlfu] {
                let menu: Vec<Cfg> = match (k, tier) {
                    (Kind::Raw, Tier::Quick) => {
                        let mut cb = raw(2, 1, 1);
                        cb.callback = 2;
                        vec![raw(2, 1, 2), raw(3, 1, 1), cb]
                    }
                    (Kind::Raw, Tier::Thorough) => vec![raw(2, 1, 2), raw(3, 1, 1), raw(4, 1, 1), raw(3, 2, 2)],
                    (Kind::Slru, Tier::Quick) => vec![slru(1, 1, 2), slru(2, 1, 1), slru(1, 2, 1), slru(2, 2, 1)],
                    (Kind::Slru, Tier::Thorough) => vec![slru(1, 1, 2), slru(2, 2, 1), slru(2, 1, 2), slru(3, 2, 1)],
                    (Kind::Wtlfu, Tier::Quick) => vec![wtlfu(1, 1, 1, 3, SEEDS[0], KHKind::Spread)],
                    _ => vec![wtlfu(1, 1, 1, 3, SEEDS[0], KHKind::Spread), wtlfu(1, 2, 1, 3, SEEDS[2], KHKind::Identity), wtlfu(2, 1, 1, 2, SEEDS[1], KHKind::Spread)],
                };
                let hashers: &[HKind] = if tier == Tier::Thorough { &[HKind::SipA, HKind::Zero, HKind::Fnv, HKind::Identity, HKind::Random] } else { &[HKind::SipA, HKind::Zero, HKind::Random] };
                for c in menu {
                    for h in hashers {
                        for kt in [KeyTy::Tracked] {
                            let mut c = c.clone();
                            c.hasher = *h;
                            c.key_ty = kt;
                            c.with_clone = true;
                            let mut w = obs_want();
                            w.clone_check = true;
                            let mut ops = mutators(&c);
                            ops.extend(observers(&c));
                            w.clone_ops = ops;
                            out.push(spec(c, w));
                        }
                    }
                }
            }
            // clones of big caches (bulk paths, index pre-sizing): pre-filled roots, shallow depth
            for k in [Kind::Raw, Kind::Slru, Kind::Wtlfu] {
                for (mut c, _) in large_menu(k, tier) {
                    c.key_ty = KeyTy::Tracked;
                    let mut w = obs_want();
                    w.clone_check = true;
                    let mut plain = c.clone();
                    plain.relative = false;
                    plain.keys = plain.keys.min(c.caps.iter().sum::<usize>() as u8 + 2);
                    let mut ops = mutators(&plain);
                    ops.extend(observers(&plain));
                    w.clone_ops = ops;
                    let mut sp = spec(c, w);
                    sp.max_depth = if tier == Tier::Thorough { 3 } else { 2 };
                    out.push(sp);
                }
            }
        }
        "C17" => {
            if !cfg!(feature = "std") {
                // no_std flavour: its hash maps are hashbrown's, with their own raw-entry code paths; the SLRU and
                // W-TinyLFU lock-steps are repeated there, including the leg with a different hasher per inner list
                for k in [Kind::Slru, Kind::Wtlfu, Kind::TwoQ] {
                    for (i, c) in small_menu(k, Tier::Quick).into_iter().enumerate().take(2) {
                        let mut s = spec(c, obs_want());
                        s.hashers = vec![HKind::SipB, HKind::Identity, HKind::Zero, HKind::Fnv];
                        out.push(s);
                        if i == 0 {
                            let mut m = s_clone_mixed(&out.last().unwrap().cfg);
                            m.mixed_hashers = true;
                            let mut s2 = spec(m, obs_want());
                            s2.hashers = vec![HKind::SipA];
                            out.push(s2);
                        }
                    }
                }
                return out;
            }
            {
                // the eviction callback's view (order of departures) must not depend on the hasher either
                let mut cb = raw(2, 1, 1);
                cb.callback = 2;
                let mut s = spec(cb, obs_want());
                s.hashers = vec![HKind::SipB, HKind::Identity, HKind::Zero, HKind::Fnv, HKind::Random, HKind::Random];
                out.push(s);
                let mut cb3 = raw(3, 1, 1);
                cb3.callback = 2;
                cb3.lean_ops = true;
                let mut s = spec(cb3, obs_want());
                s.hashers = vec![HKind::Identity, HKind::Zero, HKind::Random];
                out.push(s);
            }
            for k in ALL_KINDS {
                let menu: Vec<Cfg> = match tier {
                    Tier::Quick => small_menu(k, Tier::Quick).into_iter().take(2).collect(),
                    Tier::Thorough => {
                        let mut m = small_menu(k, Tier::Thorough);
                        m.extend(policy_menu(k, Tier::Quick).into_iter().take(3));
                        m
                    }
                };
                if k == Kind::Wtlfu {
                    // "the same holds for WTinyLFUCache's structure given the same estimator verdicts": without
                    // get/get_mut nothing is ever recorded, all estimates are 0 under every KeyHasher
                    for mut c in [wtlfu(1, 1, 1, 3, SEEDS[0], KHKind::Spread), wtlfu(1, 2, 1, 3, SEEDS[2], KHKind::Identity), wtlfu(2, 1, 2, 4, SEEDS[1], KHKind::Spread)] {
                        c.no_estimator_ops = true;
                        let mut s = spec(c, obs_want());
                        s.hashers = vec![HKind::Zero];
                        out.push(s);
                    }
                }
                for (i, c) in menu.into_iter().enumerate() {
                    let mut s = spec(c, obs_want());
                    s.hashers = vec![HKind::SipB, HKind::Identity, HKind::Zero, HKind::Fnv, HKind::Random, HKind::Random];
                    s.adequacy = i == 0;
                    out.push(s);
                    // mixed assignment: a different hasher for each inner list
                    if i == 0 && k != Kind::Raw {
                        let mut m = s_clone_mixed(&out.last().unwrap().cfg);
                        m.mixed_hashers = true;
                        let mut s2 = spec(m, obs_want());
                        s2.hashers = vec![HKind::SipA];
                        out.push(s2);
                    }
                }
            }
        }
        _ => {}
    }
    out
}

fn s_clone_mixed(c: &Cfg) -> Cfg {
    c.clone()
}
