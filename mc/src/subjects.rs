//! The five caches under test, wrapped behind one data-only interface.
//! Everything here calls the *real* crate; nothing is modelled.
use crate::hashers::{HKind, HB, KH};
use crate::ops::*;
use crate::track::fault::{tick, FK};
use crate::track::{KeyT, ValT};
use caches::lru::VerifAudit;
use caches::{
    AdaptiveCache, AdaptiveCacheBuilder, Cache, DefaultEvictCallback, OnEvictCallback, PutResult, RawLRU, ResizableCache,
    SegmentedCache, SegmentedCacheBuilder, TwoQueueCache, TwoQueueCacheBuilder, WTinyLFUCache, WTinyLFUCacheBuilder,
};
use std::cell::RefCell;

use std::hash::BuildHasher;
use std::marker::PhantomData;

pub type AuditList = Vec<(&'static str, VerifAudit)>;

pub trait Subject: Sized {
    fn build(cfg: &Cfg) -> Result<Self, String>;
    /// Executes one operation (mutator or observer). Serial numbers of tracked objects handed
    /// back to the caller are appended to `out` (the objects themselves are dropped here).
    fn apply(&mut self, op: Op, out: &mut Vec<u32>) -> Ret;
    fn snapshot(&self) -> Snap;
    fn audit(&self, lookup: bool) -> AuditList;
    fn try_clone(&self) -> Option<Self>;
    /// `dst.clone_from(self)` onto a differently configured, non-empty destination; None if not cloneable
    fn clone_from_onto(&self, _cfg: &Cfg) -> Option<Self> {
        None
    }
    /// C14: exhaustive next/next_back words on every iterator family of every list.
    /// Returns (iterator runs evaluated, problems).
    fn iter_check(&mut self, _snap: &Snap, _max_extra: usize) -> (u64, Vec<String>) {
        (0, vec![])
    }
    /// extra read-only observations of the pre-state that an oracle needs (W-TinyLFU estimator)
    fn probe(&self, _cfg: &Cfg) -> crate::driver::Probe {
        Default::default()
    }
}

// ------------------------------------------------------------------ conversions

fn ent<K: KeyT, V: ValT>(k: &K, v: &V) -> Ent {
    (k.id(), v.kv())
}

fn take_kv<K: KeyT, V: ValT>(k: K, v: V, out: &mut Vec<u32>) -> Ent {
    let e = ent(&k, &v);
    if k.serial() != 0 {
        out.push(k.serial());
    }
    if v.serial() != 0 {
        out.push(v.serial());
    }
    e
}

fn take_v<V: ValT>(v: V, out: &mut Vec<u32>) -> VV {
    let e = v.kv();
    if v.serial() != 0 {
        out.push(v.serial());
    }
    e
}

fn pr<K: KeyT, V: ValT>(r: PutResult<K, V>, out: &mut Vec<u32>) -> PR {
    match r {
        PutResult::Put => PR::Put,
        PutResult::Update(v) => PR::Update(take_v(v, out)),
        PutResult::Evicted { key, value } => {
            let (k, v) = take_kv(key, value, out);
            PR::Evicted(k, v)
        }
        PutResult::EvictedAndUpdate { evicted, update } => {
            let e = take_kv(evicted.0, evicted.1, out);
            PR::EvictedAndUpdate(e, take_v(update, out))
        }
    }
}

fn list_snap<K: KeyT, V: ValT, E: OnEvictCallback, S: BuildHasher>(l: &RawLRU<K, V, E, S>, serials: &mut Vec<u32>) -> Vec<Ent> {
    l.iter()
        .map(|(k, v)| {
            if k.serial() != 0 {
                serials.push(k.serial());
            }
            if v.serial() != 0 {
                serials.push(v.serial());
            }
            ent(k, v)
        })
        .collect()
}

fn is_live(p: *const u8, sz: usize) -> bool {
    crate::alloc::is_live(p, sz)
}

// ------------------------------------------------------------------ eviction callback log (C15)

thread_local! {
    static CB_LOG: RefCell<Vec<Ent>> = const { RefCell::new(Vec::new()) };
}

pub fn take_cb_log() -> Vec<Ent> {
    crate::alloc::untracked(|| CB_LOG.with(|l| std::mem::take(&mut *l.borrow_mut())))
}

pub struct LogCb<K, V>(PhantomData<fn(K, V)>);
impl<K, V> Clone for LogCb<K, V> {
    fn clone(&self) -> Self {
        LogCb(PhantomData)
    }
}
impl<K: KeyT, V: ValT> OnEvictCallback for LogCb<K, V> {
    fn on_evict<K2, V2>(&self, key: &K2, val: &V2) {
        // the trait method is generic without bounds; this callback is only ever installed on
        // RawLRU<K, V, ..>, which is asserted through the type names before reinterpreting
        assert_eq!(std::any::type_name::<K2>(), std::any::type_name::<K>());
        assert_eq!(std::any::type_name::<V2>(), std::any::type_name::<V>());
        let k: &K = unsafe { &*(key as *const K2 as *const K) };
        let v: &V = unsafe { &*(val as *const V2 as *const V) };
        let e = ent(k, v);
        if e.0 == 255 || e.1 == (255, 255) {
            crate::track::report(format!("the eviction callback was handed a key/value that is not a live object ({:?})", e));
        }
        crate::alloc::untracked(|| CB_LOG.with(|l| l.borrow_mut().push(e)));
        // the injected panic comes after the entry has been noted: a callback that unwinds has still been called
        tick(FK::Callback);
    }
}

// ------------------------------------------------------------------ which constructor family builds the cache

/// `HB`: the builders with explicit (deterministic) hashers, two setter orders (`builder_path` 0/1).
/// `DefaultHashBuilder`: the constructors that take no hasher (`new`, `with_*`), `builder_path` >= 2.
pub trait HasherSel: BuildHasher + Clone + Sized + 'static {
    fn build_slru<K: KeyT, V: ValT>(cfg: &Cfg) -> Result<SegmentedCache<K, V, Self, Self>, String>;
    fn build_twoq<K: KeyT, V: ValT>(cfg: &Cfg) -> Result<TwoQueueCache<K, V, Self, Self, Self>, String>;
    fn build_arc<K: KeyT, V: ValT>(cfg: &Cfg) -> Result<AdaptiveCache<K, V, Self, Self, Self, Self>, String>;
}

impl HasherSel for caches::DefaultHashBuilder {
    fn build_slru<K: KeyT, V: ValT>(cfg: &Cfg) -> Result<SegmentedCache<K, V, Self, Self>, String> {
        match cfg.builder_path {
            2 => SegmentedCache::new(cfg.caps[0], cfg.caps[1]),
            _ => SegmentedCache::<K, V>::builder(cfg.caps[0], cfg.caps[1]).finalize(),
        }
        .map_err(|e| format!("{:?}", e))
    }
    fn build_twoq<K: KeyT, V: ValT>(cfg: &Cfg) -> Result<TwoQueueCache<K, V, Self, Self, Self>, String> {
        let (n, rr, gr) = (cfg.caps[0], cfg.ratios.0, cfg.ratios.1);
        match cfg.builder_path {
            2 => TwoQueueCache::new(n),                   // default ratios only
            3 => TwoQueueCache::with_recent_ratio(n, rr), // default ghost ratio only
            4 => TwoQueueCache::with_ghost_ratio(n, gr),  // default recent ratio only
            5 => TwoQueueCache::with_2q_parameters(n, rr, gr),
            _ => TwoQueueCache::<K, V>::builder(n).set_recent_ratio(rr).set_ghost_ratio(gr).finalize(),
        }
        .map_err(|e| format!("{:?}", e))
    }
    fn build_arc<K: KeyT, V: ValT>(cfg: &Cfg) -> Result<AdaptiveCache<K, V, Self, Self, Self, Self>, String> {
        match cfg.builder_path {
            2 => AdaptiveCache::new(cfg.caps[0]),
            _ => AdaptiveCache::<K, V>::builder(cfg.caps[0]).finalize(),
        }
        .map_err(|e| format!("{:?}", e))
    }
}

// ------------------------------------------------------------------ hasher assignment

fn hasher_for(cfg: &Cfg, list: usize) -> HB {
    if cfg.mixed_hashers {
        let kinds = [HKind::SipA, HKind::Zero, HKind::Fnv, HKind::Identity, HKind::SipB];
        HB::new(kinds[list % kinds.len()])
    } else {
        HB::new(cfg.hasher)
    }
}

fn catch_build<T>(f: impl FnOnce() -> Result<T, String>) -> Result<T, String> {
    match std::panic::catch_unwind(std::panic::AssertUnwindSafe(f)) {
        Ok(r) => r,
        Err(_) => Err(format!("constructor panicked: {}", crate::panics::take_last())),
    }
}

// ------------------------------------------------------------------ shared Cache-trait operations

fn cache_op<K: KeyT, V: ValT, C: Cache<K, V>>(c: &mut C, op: Op, out: &mut Vec<u32>) -> Option<Ret> {
    Some(match op {
        Op::Put(k, ver) => Ret::Put(pr(c.put(K::mk(k), V::mk(k, ver)), out)),
        Op::Get(k) => Ret::V(c.get(K::q(k)).map(|v| v.kv())),
        Op::GetMut(k) => Ret::V(c.get_mut(K::q(k)).map(|v| v.kv())),
        Op::GetMutW(k) => Ret::V(c.get_mut(K::q(k)).map(|v| {
            v.flip();
            v.kv()
        })),
        Op::Peek(k) => Ret::V(c.peek(K::q(k)).map(|v| v.kv())),
        Op::PeekMut(k) => Ret::V(c.peek_mut(K::q(k)).map(|v| v.kv())),
        Op::PeekMutW(k) => Ret::V(c.peek_mut(K::q(k)).map(|v| {
            v.flip();
            v.kv()
        })),
        Op::Contains(k) => Ret::Bool(c.contains(K::q(k))),
        Op::Remove(k) => Ret::V(c.remove(K::q(k)).map(|v| take_v(v, out))),
        Op::Purge => {
            c.purge();
            Ret::Unit
        }
        Op::Len => Ret::Num(c.len() as u64),
        Op::Cap => Ret::Num(c.cap() as u64),
        Op::IsEmpty => Ret::Bool(c.is_empty()),
        _ => return None,
    })
}

fn okv<K: KeyT, V: ValT>(o: Option<(&K, &V)>) -> Ret {
    Ret::KV(o.map(|(k, v)| ent(k, v)))
}
fn okv_mut<K: KeyT, V: ValT>(o: Option<(&K, &mut V)>, write: bool) -> Ret {
    Ret::KV(o.map(|(k, v)| {
        if write {
            v.flip();
        }
        ent(k, v)
    }))
}

/// drain one RawLRU's twelve iterator families from the front (observer `Iters`)
fn drain_iters<K: KeyT, V: ValT, E: OnEvictCallback, S: BuildHasher>(l: &mut RawLRU<K, V, E, S>) -> Vec<Ret> {
    let kk = |k: &K| (k.id(), (254u8, 254u8));
    let vv = |v: &V| (254u8, v.kv());
    vec![
        Ret::Ents(l.iter().map(|(k, v)| ent(k, v)).collect()),
        Ret::Ents(l.iter_lru().map(|(k, v)| ent(k, v)).collect()),
        Ret::Ents(l.iter_mut().map(|(k, v)| ent(k, v)).collect()),
        Ret::Ents(l.iter_lru_mut().map(|(k, v)| ent(k, v)).collect()),
        Ret::Ents(l.keys().map(kk).collect()),
        Ret::Ents(l.keys_lru().map(kk).collect()),
        Ret::Ents(l.values().map(vv).collect()),
        Ret::Ents(l.values_lru().map(vv).collect()),
        Ret::Ents(l.values_mut().map(|v| vv(v)).collect()),
        Ret::Ents(l.values_lru_mut().map(|v| vv(v)).collect()),
        Ret::Ents((&*l).into_iter().map(|(k, v)| ent(k, v)).collect()),
        Ret::Ents((&mut *l).into_iter().map(|(k, v)| ent(k, v)).collect()),
    ]
}

// ------------------------------------------------------------------ RawLRU

pub enum RawInner<K, V> {
    Plain(RawLRU<K, V, DefaultEvictCallback, HB>),
    /// built by a conversion (default hasher)
    PlainRs(RawLRU<K, V, DefaultEvictCallback, caches::DefaultHashBuilder>),
    Cb(RawLRU<K, V, LogCb<K, V>, HB>),
    CbRs(RawLRU<K, V, LogCb<K, V>, caches::DefaultHashBuilder>),
}

pub struct RawSubj<K, V>(pub RawInner<K, V>);

macro_rules! with_raw {
    ($s:expr, $c:ident => $e:expr) => {
        match &mut $s.0 {
            RawInner::Plain($c) => $e,
            RawInner::PlainRs($c) => $e,
            RawInner::Cb($c) => $e,
            RawInner::CbRs($c) => $e,
        }
    };
}
macro_rules! with_raw_ref {
    ($s:expr, $c:ident => $e:expr) => {
        match &$s.0 {
            RawInner::Plain($c) => $e,
            RawInner::PlainRs($c) => $e,
            RawInner::Cb($c) => $e,
            RawInner::CbRs($c) => $e,
        }
    };
}

fn raw_op<K: KeyT, V: ValT, E: OnEvictCallback, S: BuildHasher>(c: &mut RawLRU<K, V, E, S>, op: Op, out: &mut Vec<u32>) -> Ret {
    if let Some(r) = cache_op::<K, V, _>(c, op, out) {
        return r;
    }
    match op {
        Op::DebugFmt => Ret::Str(format!("{:?}", c)),
        Op::RemoveLru => Ret::KV(c.remove_lru().map(|(k, v)| take_kv(k, v, out))),
        Op::Resize(n) => Ret::Num(c.resize(if n == 255 { usize::MAX } else { n as usize })),
        Op::GetLru => okv(c.get_lru()),
        Op::GetLruMut => okv_mut(c.get_lru_mut(), false),
        Op::GetLruMutW => okv_mut(c.get_lru_mut(), true),
        Op::GetMru => okv(c.get_mru()),
        Op::GetMruMut => okv_mut(c.get_mru_mut(), false),
        Op::GetMruMutW => okv_mut(c.get_mru_mut(), true),
        Op::PeekLru => okv(c.peek_lru()),
        Op::PeekMru => okv(c.peek_mru()),
        Op::PeekLruMut => okv_mut(c.peek_lru_mut(), false),
        Op::PeekLruMutW => okv_mut(c.peek_lru_mut(), true),
        Op::PeekMruMut => okv_mut(c.peek_mru_mut(), false),
        Op::PeekMruMutW => okv_mut(c.peek_mru_mut(), true),
        Op::PeekOrPut(k, ver) => {
            let (a, b) = c.peek_or_put(K::mk(k), V::mk(k, ver));
            let a = a.map(|v| v.kv());
            Ret::OrPut(a, b.map(|r| pr(r, out)))
        }
        Op::PeekMutOrPut(k, ver) => {
            let (a, b) = c.peek_mut_or_put(K::mk(k), V::mk(k, ver));
            let a = a.map(|v| v.kv());
            Ret::OrPut(a, b.map(|r| pr(r, out)))
        }
        Op::PeekMutOrPutW(k, ver) => {
            let (a, b) = c.peek_mut_or_put(K::mk(k), V::mk(k, ver));
            let a = a.map(|v| {
                v.flip();
                v.kv()
            });
            Ret::OrPut(a, b.map(|r| pr(r, out)))
        }
        Op::ContainsOrPut(k, ver) => {
            let (a, b) = c.contains_or_put(K::mk(k), V::mk(k, ver));
            Ret::BoolOrPut(a, b.map(|r| pr(r, out)))
        }
        Op::Iters => Ret::Many(drain_iters(c)),
        Op::IterW(_, fam, n) => {
            let n = n as usize;
            let hit = match fam {
                IterFam::IterMut if n >= 100 => crate::iters::by_key(c.iter_mut(), n),
                IterFam::IterLruMut if n >= 100 => crate::iters::by_key(c.iter_lru_mut(), n),
                IterFam::MutIntoIter if n >= 100 => crate::iters::by_key(c.into_iter(), n),
                IterFam::IterMut => c.iter_mut().nth(n).map(|(_, v)| v.flip()).is_some(),
                IterFam::IterLruMut => c.iter_lru_mut().nth(n).map(|(_, v)| v.flip()).is_some(),
                IterFam::ValuesMut => c.values_mut().nth(n).map(|v| v.flip()).is_some(),
                IterFam::ValuesLruMut => c.values_lru_mut().nth(n).map(|v| v.flip()).is_some(),
                IterFam::MutIntoIter => c.into_iter().nth(n).map(|(_, v)| v.flip()).is_some(),
                _ => return Ret::NotApplicable,
            };
            Ret::Bool(hit)
        }
        _ => Ret::NotApplicable,
    }
}

impl<K: KeyT, V: ValT> Subject for RawSubj<K, V> {
    fn build(cfg: &Cfg) -> Result<Self, String> {
        let cap = cfg.caps[0];
        catch_build(|| {
            Ok(RawSubj(match cfg.callback {
                0 => RawInner::Plain(RawLRU::with_hasher(cap, hasher_for(cfg, 0)).map_err(|e| format!("{:?}", e))?),
                1 => RawInner::CbRs(RawLRU::with_on_evict_cb(cap, LogCb(PhantomData)).map_err(|e| format!("{:?}", e))?),
                _ => RawInner::Cb(
                    RawLRU::with_on_evict_cb_and_hasher(cap, LogCb(PhantomData), hasher_for(cfg, 0)).map_err(|e| format!("{:?}", e))?,
                ),
            }))
        })
    }
    fn apply(&mut self, op: Op, out: &mut Vec<u32>) -> Ret {
        if op == Op::CloneReplace {
            let c2 = self.try_clone().unwrap();
            *self = c2;
            return Ret::Unit;
        }
        if op == Op::CloneFromReplace {
            // destination: one more slot than the source, filled to the brim with other entries
            fn fuller<K: KeyT, V: ValT, E: OnEvictCallback + Clone, S: BuildHasher + Clone>(src: &RawLRU<K, V, E, S>) -> RawLRU<K, V, E, S> {
                let mut dst = src.clone();
                let dcap = if src.cap() >= 64 { 64 } else { src.cap() + 1 };
                dst.resize(dcap);
                dst.purge();
                for k in 0..dcap.min(90) {
                    dst.put(K::mk(95 - k as u8), V::mk(95 - k as u8, 0));
                }
                let _ = crate::subjects::take_cb_log();
                dst.clone_from(src);
                dst
            }
            let new = match &self.0 {
                RawInner::Plain(c) => RawInner::Plain(fuller(c)),
                RawInner::PlainRs(c) => RawInner::PlainRs(fuller(c)),
                RawInner::Cb(c) => RawInner::Cb(fuller(c)),
                RawInner::CbRs(c) => RawInner::CbRs(fuller(c)),
            };
            *self = RawSubj(new);
            return Ret::Unit;
        }
        if let Op::FromItems(code) = op {
            if !matches!(self.0, RawInner::Plain(_) | RawInner::PlainRs(_)) {
                return Ret::NotApplicable;
            }
            let (kind, items) = from_items_decode(code);
            let v: Vec<(K, V)> = items.iter().map(|(k, ver)| (K::mk(*k), V::mk(*k, *ver))).collect();
            let n = v.len();
            let new: RawLRU<K, V> = match kind {
                0 => v.into_iter().collect(),
                1 => RawLRU::from(v),
                2 => {
                    let mut it = v.into_iter();
                    let mut nx = || it.next().unwrap();
                    match n {
                        0 => RawLRU::from([] as [(K, V); 0]),
                        1 => RawLRU::from([nx()]),
                        2 => RawLRU::from([nx(), nx()]),
                        3 => RawLRU::from([nx(), nx(), nx()]),
                        4 => RawLRU::from([nx(), nx(), nx(), nx()]),
                        _ => RawLRU::from([nx(), nx(), nx(), nx(), nx()]),
                    }
                }
                3 => v.into_iter().filter(|_| true).collect(),
                4 => {
                    let mut a = v;
                    let b = a.split_off(n / 2);
                    a.into_iter().chain(b).collect()
                }
                _ => {
                    // an unbounded source cut short by take_while: the size hint is (0, Some(huge))
                    let lim = n as u64;
                    (0u64..u64::MAX).map(|i| (K::mk(i.min(90) as u8), V::mk(i.min(90) as u8, 0))).take_while(|p| (p.0.id() as u64) < lim).collect()
                }
            };
            *self = RawSubj(RawInner::PlainRs(new));
            return Ret::Unit;
        }
        with_raw!(self, c => raw_op(c, op, out))
    }
    fn snapshot(&self) -> Snap {
        with_raw_ref!(self, c => {
            let mut serials = vec![];
            let l = list_snap(c, &mut serials);
            Snap { lists: vec![l], scalars: vec![c.cap() as u64], inner: vec![], shape: 0, est: None, serials, reported: [c.len() as u64, c.cap() as u64, c.is_empty() as u64] }
        })
    }
    fn audit(&self, lookup: bool) -> AuditList {
        with_raw_ref!(self, c => vec![("list", c.verif_audit(&is_live, lookup))])
    }
    fn try_clone(&self) -> Option<Self> {
        Some(RawSubj(match &self.0 {
            RawInner::Plain(c) => RawInner::Plain(c.clone()),
            RawInner::PlainRs(c) => RawInner::PlainRs(c.clone()),
            RawInner::Cb(c) => RawInner::Cb(c.clone()),
            RawInner::CbRs(c) => RawInner::CbRs(c.clone()),
        }))
    }
    fn iter_check(&mut self, snap: &Snap, max_extra: usize) -> (u64, Vec<String>) {
        with_raw!(self, c => crate::iters::check_raw(c, &snap.lists[0], max_extra))
    }
    fn clone_from_onto(&self, cfg: &Cfg) -> Option<Self> {
        // destination: another capacity, already holding entries
        let mut c2 = cfg.clone();
        c2.caps[0] = if cfg.caps[0] > 1 { cfg.caps[0] - 1 } else { cfg.caps[0] + 2 };
        let mut dst = Self::build(&c2).ok()?;
        let mut out = Vec::new();
        dst.apply(Op::Put(0, 0), &mut out);
        dst.apply(Op::Put(cfg.keys.saturating_sub(1), 0), &mut out);
        match (&mut dst.0, &self.0) {
            (RawInner::Plain(d), RawInner::Plain(s)) => d.clone_from(s),
            (RawInner::PlainRs(_), _) | (_, RawInner::PlainRs(_)) => return None,
            (RawInner::Cb(d), RawInner::Cb(s)) => d.clone_from(s),
            (RawInner::CbRs(d), RawInner::CbRs(s)) => d.clone_from(s),
            _ => return None,
        }
        Some(dst)
    }
}

// ------------------------------------------------------------------ SegmentedCache

pub struct SlruSubj<K, V, H = HB>(pub SegmentedCache<K, V, H, H>);

impl HasherSel for HB {
    fn build_slru<K: KeyT, V: ValT>(cfg: &Cfg) -> Result<SegmentedCache<K, V, Self, Self>, String> {
            if cfg.builder_path == 0 {
                SegmentedCacheBuilder::new(cfg.caps[0], cfg.caps[1])
                    .set_probationary_hasher(hasher_for(cfg, 0))
                    .set_protected_hasher(hasher_for(cfg, 1))
                    .finalize()
                    
                    .map_err(|e| format!("{:?}", e))
            } else {
                let b = SegmentedCacheBuilder::default()
                    .set_protected_hasher(hasher_for(cfg, 1))
                    .set_probationary_hasher(hasher_for(cfg, 0))
                    .set_probationary_size(cfg.caps[0])
                    .set_protected_size(cfg.caps[1]);
                SegmentedCache::from_builder(b).map_err(|e| format!("{:?}", e))
            }
    }
    fn build_twoq<K: KeyT, V: ValT>(cfg: &Cfg) -> Result<TwoQueueCache<K, V, Self, Self, Self>, String> {
            if cfg.builder_path == 0 {
                TwoQueueCacheBuilder::new(cfg.caps[0])
                    .set_recent_ratio(cfg.ratios.0)
                    .set_ghost_ratio(cfg.ratios.1)
                    .set_recent_hasher(hasher_for(cfg, 0))
                    .set_frequent_hasher(hasher_for(cfg, 1))
                    .set_ghost_hasher(hasher_for(cfg, 2))
                    .finalize()
                    
                    .map_err(|e| format!("{:?}", e))
            } else {
                let b = TwoQueueCacheBuilder::default()
                    .set_ghost_hasher(hasher_for(cfg, 2))
                    .set_frequent_hasher(hasher_for(cfg, 1))
                    .set_recent_hasher(hasher_for(cfg, 0))
                    .set_ghost_ratio(cfg.ratios.1)
                    .set_size(cfg.caps[0])
                    .set_recent_ratio(cfg.ratios.0);
                TwoQueueCache::from_builder(b).map_err(|e| format!("{:?}", e))
            }
    }
    fn build_arc<K: KeyT, V: ValT>(cfg: &Cfg) -> Result<AdaptiveCache<K, V, Self, Self, Self, Self>, String> {
            if cfg.builder_path == 0 {
                AdaptiveCacheBuilder::new(cfg.caps[0])
                    .set_recent_hasher(hasher_for(cfg, 0))
                    .set_frequent_hasher(hasher_for(cfg, 1))
                    .set_recent_evict_hasher(hasher_for(cfg, 2))
                    .set_frequent_evict_hasher(hasher_for(cfg, 3))
                    .finalize()
                    
                    .map_err(|e| format!("{:?}", e))
            } else {
                let b = AdaptiveCacheBuilder::default()
                    .set_frequent_evict_hasher(hasher_for(cfg, 3))
                    .set_recent_evict_hasher(hasher_for(cfg, 2))
                    .set_frequent_hasher(hasher_for(cfg, 1))
                    .set_recent_hasher(hasher_for(cfg, 0))
                    .set_size(cfg.caps[0]);
                AdaptiveCache::from_builder(b).map_err(|e| format!("{:?}", e))
            }
    }
}

impl<K: KeyT, V: ValT, H: HasherSel> Subject for SlruSubj<K, V, H> {
    fn build(cfg: &Cfg) -> Result<Self, String> {
        catch_build(|| H::build_slru(cfg).map(SlruSubj))
    }
    fn apply(&mut self, op: Op, out: &mut Vec<u32>) -> Ret {
        let c = &mut self.0;
        if let Some(r) = cache_op::<K, V, _>(c, op, out) {
            return r;
        }
        match op {
            Op::DebugFmt => Ret::Str(String::new()), // SegmentedCache has no Debug impl
            Op::PutProtected(k, ver) => Ret::Put(pr(c.put_protected(K::mk(k), V::mk(k, ver)), out)),
            Op::RemoveLruProb => Ret::KV(c.remove_lru_from_probationary().map(|(k, v)| take_kv(k, v, out))),
            Op::RemoveLruProt => Ret::KV(c.remove_lru_from_protected().map(|(k, v)| take_kv(k, v, out))),
            Op::SegPeeks => Ret::Many(vec![
                okv(c.peek_lru_from_probationary()),
                okv(c.peek_mru_from_probationary()),
                okv_mut(c.peek_lru_mut_from_probationary(), false),
                okv_mut(c.peek_mru_mut_from_probationary(), false),
                okv(c.peek_lru_from_protected()),
                okv(c.peek_mru_from_protected()),
                okv_mut(c.peek_lru_mut_from_protected(), false),
                okv_mut(c.peek_mru_mut_from_protected(), false),
                Ret::Num(c.probationary_len() as u64),
                Ret::Num(c.protected_len() as u64),
                Ret::Num(c.probationary_cap() as u64),
                Ret::Num(c.protected_cap() as u64),
            ]),
            Op::SegPeekW(seg, end) => match (seg, end) {
                (0, 0) => okv_mut(c.peek_lru_mut_from_probationary(), true),
                (0, _) => okv_mut(c.peek_mru_mut_from_probationary(), true),
                (_, 0) => okv_mut(c.peek_lru_mut_from_protected(), true),
                _ => okv_mut(c.peek_mru_mut_from_protected(), true),
            },
            Op::CloneReplace => {
                let c2 = self.0.clone();
                self.0 = c2;
                Ret::Unit
            }
            Op::CloneFromReplace => {
                // destination: other segment sizes, already holding entries in both segments
                let cfg2 = Cfg::base(Kind::Slru, &[self.0.protected_cap() + 1, self.0.probationary_cap() + 2], 8);
                match Self::build(&cfg2) {
                    Ok(mut dst) => {
                        let mut o = Vec::new();
                        dst.apply(Op::Put(7, 0), &mut o);
                        dst.apply(Op::Get(7), &mut o);
                        dst.apply(Op::Put(6, 0), &mut o);
                        dst.0.clone_from(&self.0);
                        *self = dst;
                        Ret::Unit
                    }
                    Err(_) => Ret::NotApplicable,
                }
            }
            _ => Ret::NotApplicable,
        }
    }
    fn snapshot(&self) -> Snap {
        let c = &self.0;
        let mut serials = vec![];
        let pb = list_snap(c.verif_probationary(), &mut serials);
        let pt = list_snap(c.verif_protected(), &mut serials);
        Snap {
            lists: vec![pb, pt],
            scalars: vec![c.probationary_cap() as u64, c.protected_cap() as u64],
            inner: vec![c.verif_probationary().cap() as u64, c.verif_protected().cap() as u64],
            shape: 0,
            est: None,
            serials,
            reported: [c.len() as u64, c.cap() as u64, c.is_empty() as u64],
        }
    }
    fn audit(&self, lookup: bool) -> AuditList {
        vec![
            ("probationary", self.0.verif_probationary().verif_audit(&is_live, lookup)),
            ("protected", self.0.verif_protected().verif_audit(&is_live, lookup)),
        ]
    }
    fn try_clone(&self) -> Option<Self> {
        Some(SlruSubj(self.0.clone()))
    }
    fn clone_from_onto(&self, cfg: &Cfg) -> Option<Self> {
        let mut c2 = cfg.clone();
        c2.caps = vec![cfg.caps[1] + 1, cfg.caps[0] + 2];
        let mut dst = Self::build(&c2).ok()?;
        let mut out = Vec::new();
        dst.apply(Op::Put(0, 0), &mut out);
        dst.apply(Op::Get(0), &mut out);
        dst.0.clone_from(&self.0);
        Some(dst)
    }
}

// ------------------------------------------------------------------ TwoQueueCache

pub struct TwoQSubj<K: KeyT, V, H = HB>(pub TwoQueueCache<K, V, H, H, H>);

impl<K: KeyT, V: ValT, H: HasherSel> Subject for TwoQSubj<K, V, H> {
    fn build(cfg: &Cfg) -> Result<Self, String> {
        catch_build(|| H::build_twoq(cfg).map(TwoQSubj))
    }
    fn apply(&mut self, op: Op, out: &mut Vec<u32>) -> Ret {
        let c = &mut self.0;
        if let Some(r) = cache_op::<K, V, _>(c, op, out) {
            return r;
        }
        match op {
            Op::DebugFmt => Ret::Str(format!("{:?}", c)),
            Op::ListLens => Ret::Many(vec![
                Ret::Num(c.recent_len() as u64),
                Ret::Num(c.frequent_len() as u64),
                Ret::Num(c.ghost_len() as u64),
            ]),
            Op::Iters => Ret::Many(crate::iters::drain_twoq(c)),
            Op::IterW(list, fam, n) => crate::iters::write_twoq(c, list, fam, n as usize),
            _ => Ret::NotApplicable,
        }
    }
    fn snapshot(&self) -> Snap {
        let c = &self.0;
        let mut serials = vec![];
        let r = list_snap(c.verif_recent(), &mut serials);
        let f = list_snap(c.verif_frequent(), &mut serials);
        let g = list_snap(c.verif_ghost(), &mut serials);
        Snap {
            lists: vec![r, f, g],
            scalars: vec![c.cap() as u64, c.verif_recent_quota() as u64, c.verif_ghost().cap() as u64],
            inner: vec![c.verif_recent().cap() as u64, c.verif_frequent().cap() as u64, c.verif_ghost().cap() as u64],
            shape: 0,
            est: None,
            serials,
            reported: [c.len() as u64, c.cap() as u64, c.is_empty() as u64],
        }
    }
    fn audit(&self, lookup: bool) -> AuditList {
        vec![
            ("recent", self.0.verif_recent().verif_audit(&is_live, lookup)),
            ("frequent", self.0.verif_frequent().verif_audit(&is_live, lookup)),
            ("ghost", self.0.verif_ghost().verif_audit(&is_live, lookup)),
        ]
    }
    fn try_clone(&self) -> Option<Self> {
        None
    }
    fn iter_check(&mut self, snap: &Snap, max_extra: usize) -> (u64, Vec<String>) {
        crate::iters::check_twoq(&mut self.0, snap, max_extra)
    }
}

// ------------------------------------------------------------------ AdaptiveCache

pub struct ArcSubj<K, V, H = HB>(pub AdaptiveCache<K, V, H, H, H, H>);

impl<K: KeyT, V: ValT, H: HasherSel> Subject for ArcSubj<K, V, H> {
    fn build(cfg: &Cfg) -> Result<Self, String> {
        catch_build(|| H::build_arc(cfg).map(ArcSubj))
    }
    fn apply(&mut self, op: Op, out: &mut Vec<u32>) -> Ret {
        let c = &mut self.0;
        if let Some(r) = cache_op::<K, V, _>(c, op, out) {
            return r;
        }
        match op {
            Op::DebugFmt => Ret::Str(String::new()), // AdaptiveCache has no Debug impl
            Op::ListLens => Ret::Many(vec![
                Ret::Num(c.recent_len() as u64),
                Ret::Num(c.frequent_len() as u64),
                Ret::Num(c.recent_evict_len() as u64),
                Ret::Num(c.frequent_evict_len() as u64),
                Ret::Num(c.partition() as u64),
            ]),
            Op::Iters => Ret::Many(crate::iters::drain_arc(c)),
            Op::IterW(list, fam, n) => crate::iters::write_arc(c, list, fam, n as usize),
            _ => Ret::NotApplicable,
        }
    }
    fn snapshot(&self) -> Snap {
        let c = &self.0;
        let mut serials = vec![];
        let t1 = list_snap(c.verif_recent(), &mut serials);
        let t2 = list_snap(c.verif_frequent(), &mut serials);
        let b1 = list_snap(c.verif_recent_evict(), &mut serials);
        let b2 = list_snap(c.verif_frequent_evict(), &mut serials);
        Snap {
            lists: vec![t1, t2, b1, b2],
            scalars: vec![c.cap() as u64, c.partition() as u64],
            inner: vec![c.verif_recent().cap() as u64, c.verif_frequent().cap() as u64, c.verif_recent_evict().cap() as u64, c.verif_frequent_evict().cap() as u64],
            shape: 0,
            est: None,
            serials,
            reported: [c.len() as u64, c.cap() as u64, c.is_empty() as u64],
        }
    }
    fn audit(&self, lookup: bool) -> AuditList {
        vec![
            ("recent", self.0.verif_recent().verif_audit(&is_live, lookup)),
            ("frequent", self.0.verif_frequent().verif_audit(&is_live, lookup)),
            ("recent_evict", self.0.verif_recent_evict().verif_audit(&is_live, lookup)),
            ("frequent_evict", self.0.verif_frequent_evict().verif_audit(&is_live, lookup)),
        ]
    }
    fn try_clone(&self) -> Option<Self> {
        None
    }
    fn iter_check(&mut self, snap: &Snap, max_extra: usize) -> (u64, Vec<String>) {
        crate::iters::check_arc(&mut self.0, snap, max_extra)
    }
}

// ------------------------------------------------------------------ WTinyLFUCache

pub struct WtlfuSubj<K: KeyT, V>(pub WTinyLFUCache<K, V, KH, HB, HB, HB>);

pub fn est_snap(s: &caches::lfu::VerifTinyLFUState) -> EstSnap {
    EstSnap { rows: s.rows.clone(), bitset: s.bitset.clone(), w: s.w as u64, samples: s.samples as u64, seeds: s.seeds }
}

impl<K: KeyT, V: ValT> Subject for WtlfuSubj<K, V> {
    fn build(cfg: &Cfg) -> Result<Self, String> {
        catch_build(|| {
            let mut c = if cfg.builder_path == 0 {
                WTinyLFUCacheBuilder::with_hashers(KH(cfg.kh), hasher_for(cfg, 2), hasher_for(cfg, 1), hasher_for(cfg, 0))
                    .set_window_cache_size(cfg.caps[0])
                    .set_protected_cache_size(cfg.caps[1])
                    .set_probationary_cache_size(cfg.caps[2])
                    .set_samples(cfg.samples)
                    .finalize()
                    .map_err(|e| format!("{:?}", e))?
            } else {
                // sizes first (in another order), every hasher setter afterwards, the key hasher last
                let b = WTinyLFUCacheBuilder::<K, KH, HB, HB, HB>::default()
                    .set_false_positive_ratio(0.01)
                    .set_probationary_cache_size(cfg.caps[2])
                    .set_samples(cfg.samples)
                    .set_protected_cache_size(cfg.caps[1])
                    .set_window_cache_size(cfg.caps[0])
                    .set_window_hasher(hasher_for(cfg, 0))
                    .set_probationary_hasher(hasher_for(cfg, 1))
                    .set_protected_hasher(hasher_for(cfg, 2))
                    .set_key_hasher(KH(cfg.kh));
                WTinyLFUCache::from_builder(b).map_err(|e| format!("{:?}", e))?
            };
            c.verif_estimator_mut().verif_set_seeds(cfg.seeds);
            Ok(WtlfuSubj(c))
        })
    }
    fn apply(&mut self, op: Op, out: &mut Vec<u32>) -> Ret {
        let c = &mut self.0;
        if let Some(r) = cache_op::<K, V, _>(c, op, out) {
            return r;
        }
        match op {
            Op::DebugFmt => Ret::Str(String::new()), // no Debug impl
            Op::ListLens => Ret::Many(vec![
                Ret::Num(c.window_cache_len() as u64),
                Ret::Num(c.window_cache_cap() as u64),
                Ret::Num(c.main_cache_len() as u64),
                Ret::Num(c.main_cache_cap() as u64),
            ]),
            Op::CloneReplace => {
                let c2 = self.0.clone();
                self.0 = c2;
                Ret::Unit
            }
            Op::CloneFromReplace => {
                let main = self.0.verif_main();
                let mut cfg2 = Cfg::base(Kind::Wtlfu, &[self.0.window_cache_cap() + 1, main.protected_cap() + 1, main.probationary_cap() + 2], 8);
                cfg2.samples = 7;
                match Self::build(&cfg2) {
                    Ok(mut dst) => {
                        let mut o = Vec::new();
                        dst.apply(Op::Put(7, 0), &mut o);
                        dst.apply(Op::Get(6), &mut o);
                        dst.apply(Op::Put(5, 0), &mut o);
                        dst.0.clone_from(&self.0);
                        *self = dst;
                        Ret::Unit
                    }
                    Err(_) => Ret::NotApplicable,
                }
            }
            _ => Ret::NotApplicable,
        }
    }
    fn snapshot(&self) -> Snap {
        let c = &self.0;
        let mut serials = vec![];
        let w = list_snap(c.verif_window(), &mut serials);
        let pb = list_snap(c.verif_main().verif_probationary(), &mut serials);
        let pt = list_snap(c.verif_main().verif_protected(), &mut serials);
        Snap {
            lists: vec![w, pb, pt],
            scalars: vec![c.window_cache_cap() as u64, c.verif_main().probationary_cap() as u64, c.verif_main().protected_cap() as u64],
            inner: vec![c.verif_window().cap() as u64, c.verif_main().verif_probationary().cap() as u64, c.verif_main().verif_protected().cap() as u64],
            shape: 0,
            est: Some(est_snap(&c.verif_estimator().verif_state())),
            serials,
            reported: [c.len() as u64, c.cap() as u64, c.is_empty() as u64],
        }
    }
    fn audit(&self, lookup: bool) -> AuditList {
        vec![
            ("window", self.0.verif_window().verif_audit(&is_live, lookup)),
            ("probationary", self.0.verif_main().verif_probationary().verif_audit(&is_live, lookup)),
            ("protected", self.0.verif_main().verif_protected().verif_audit(&is_live, lookup)),
        ]
    }
    fn try_clone(&self) -> Option<Self> {
        Some(WtlfuSubj(self.0.clone()))
    }
    fn clone_from_onto(&self, cfg: &Cfg) -> Option<Self> {
        let mut c2 = cfg.clone();
        c2.caps = vec![cfg.caps[0] + 1, cfg.caps[2] + 1, cfg.caps[1] + 2];
        c2.samples = cfg.samples + 3;
        let mut dst = Self::build(&c2).ok()?;
        let mut out = Vec::new();
        dst.apply(Op::Put(0, 0), &mut out);
        dst.apply(Op::Get(1), &mut out);
        dst.0.clone_from(&self.0);
        Some(dst)
    }
    fn probe(&self, cfg: &Cfg) -> crate::driver::Probe {
        let est = self.0.verif_estimator();
        let mut p = crate::driver::Probe::default();
        for k in 0..cfg.keys {
            p.estimates.push(est.estimate(K::q(k)));
            // "one recorded access": increment, optionally preceded by a sample tick
            let mut a = est.clone();
            a.increment(K::q(k));
            let mut b = est.clone();
            b.try_reset();
            b.increment(K::q(k));
            // ... or followed by one: the statement fixes neither whether the sample tick exists nor its order
            let mut c3 = est.clone();
            c3.increment(K::q(k));
            c3.try_reset();
            p.est_after_access.push(vec![est_snap(&a.verif_state()), est_snap(&b.verif_state()), est_snap(&c3.verif_state())]);
        }
        p
    }
}

/// estimate of key id `k` read from the real estimator of a W-TinyLFU (used by the C10 oracle)
pub fn wtlfu_estimates<K: KeyT, V: ValT>(s: &WtlfuSubj<K, V>, keys: u8) -> Vec<u64> {
    (0..keys).map(|k| s.0.verif_estimator().estimate(K::q(k))).collect()
}
