//! E1: closure search (reachability fixpoint) over the real cache (DESIGN §2.2).
//! Level-synchronous BFS; states are represented by the shortest history reaching them and
//! rebuilt by replay; the merge step after each chunk is sequential and ordered, so state
//! numbering, counts and counterexamples are identical from run to run.
use crate::driver::{Driver, Wants};
use crate::oracle::{self, Counters, Finding};
use crate::ops::*;
use rayon::prelude::*;
use std::collections::{BTreeMap, BTreeSet, HashMap};
use std::time::Instant;

#[derive(Clone, Debug)]
pub struct Limits {
    pub max_states: usize,
    pub max_secs: f64,
    pub max_depth: usize,
    /// abstraction-adequacy post-pass (DESIGN §2.3): different histories reaching the same
    /// abstract state must have the same one-step fan-out
    pub adequacy: bool,
    /// return the BFS-shortest history of every state (used by the fault engine)
    pub collect_histories: bool,
    /// property that owns an adequacy finding in this run
    pub adequacy_prop: &'static str,
    /// how many further steps the two histories of a merged state are compared for (>= 1)
    pub adequacy_depth: usize,
}

impl Default for Limits {
    fn default() -> Self {
        Limits { max_states: 2_000_000, max_secs: 1500.0, max_depth: usize::MAX, adequacy: false, collect_histories: false, adequacy_prop: "C17", adequacy_depth: 1 }
    }
}

#[derive(Clone, Debug)]
pub struct Violation {
    pub finding: Finding,
    pub history: Vec<Op>,
    pub failing_op: Option<Op>,
    pub count: u64,
}

#[derive(Clone, Debug, Default)]
pub struct Explore {
    pub label: String,
    pub states: usize,
    pub transitions: u64,
    pub executions: u64,
    pub max_depth: usize,
    pub closed: bool,
    pub capped: Option<String>,
    pub violations: Vec<Violation>,
    pub counters: Counters,
    pub digest: u64,
    pub samples: Vec<String>,
    pub machinery_errors: Vec<String>,
    pub secs: f64,
    pub iter_runs: u64,
    pub clone_steps: u64,
    pub mutators: usize,
    pub observers: usize,
    pub adequacy_pairs: u64,
    pub adequacy_steps: u64,
    pub histories: Vec<Vec<Op>>,
}

struct Node {
    parent: u32,
    op: Op,
    depth: u32,
}

/// Cfg::prefill followed by the BFS-shortest operations leading to state `id`
fn history(prefill: &[Op], nodes: &[Node], id: u32) -> Vec<Op> {
    let mut h = prefill.to_vec();
    h.extend(history_tail(nodes, id));
    h
}

fn history_tail(nodes: &[Node], mut id: u32) -> Vec<Op> {
    let mut h = Vec::new();
    while id != 0 {
        let n = &nodes[id as usize];
        h.push(n.op);
        id = n.parent;
    }
    h.reverse();
    h
}

fn fnv(bytes: &[u8]) -> u64 {
    let mut h = 0xcbf2_9ce4_8422_2325u64;
    for b in bytes {
        h ^= *b as u64;
        h = h.wrapping_mul(0x0000_0100_0000_01b3);
    }
    h
}

struct StateOut {
    findings: Vec<(Finding, Option<Op>)>,
    succs: Vec<(Vec<u8>, Op, Ret, Vec<Ent>)>,
    counters: Counters,
    transitions: u64,
    executions: u64,
    digest: u64,
    errors: Vec<String>,
    iter_runs: u64,
    clone_steps: u64,
}

pub fn explore(driver: &dyn Driver, props: &BTreeSet<&'static str>, want: &Wants, limits: &Limits) -> Explore {
    let cfg = driver.cfg().clone();
    let muts = mutators(&cfg);
    let prefill: Vec<Op> = cfg.prefill.clone();
    let t0 = Instant::now();
    let mut ex = Explore { label: cfg.label(), mutators: muts.len(), observers: if want.observers { observers(&cfg).len() } else { 0 }, ..Default::default() };

    let mut nodes: Vec<Node> = vec![Node { parent: 0, op: Op::Purge, depth: 0 }];
    let mut canon_of: Vec<Vec<u8>> = Vec::new();
    let mut seen: HashMap<Vec<u8>, u32> = HashMap::new();

    // initial state
    let s0 = driver.state(&prefill, want);
    let snap0 = match &s0.snap {
        Some(s) => s.clone(),
        None => {
            ex.machinery_errors.push(format!("cannot build the initial state of {}: {:?}", cfg.label(), s0.exec.replay_error));
            return ex;
        }
    };
    let c0 = snap0.canon();
    seen.insert(c0.clone(), 0);
    canon_of.push(c0);

    let mut viol: BTreeMap<(String, String, String), Violation> = BTreeMap::new();
    let mut fanout: Vec<Vec<(Op, Ret, Vec<u8>, Vec<Ent>)>> = vec![];
    let mut dups: Vec<(u32, Op, u32)> = vec![];
    let mut frontier: Vec<u32> = vec![0];
    let mut depth = 0usize;
    let mut capped: Option<String> = None;

    'levels: while !frontier.is_empty() {
        if depth >= limits.max_depth {
            capped = Some(format!("depth bound {} reached with {} states in the frontier", limits.max_depth, frontier.len()));
            break;
        }
        for chunk in frontier.clone().chunks(2048) {
            let inputs: Vec<(u32, Vec<Op>)> = chunk.iter().map(|id| (*id, history(&prefill, &nodes, *id))).collect();
            let outs: Vec<StateOut> = inputs
                .par_iter()
                .map(|(id, hist)| {
                    let mut o = StateOut { findings: vec![], succs: vec![], counters: Counters::new(), transitions: 0, executions: 0, digest: 0, errors: vec![], iter_runs: 0, clone_steps: 0 };
                    let sres = driver.state(hist, want);
                    o.executions += driver.legs();
                    o.iter_runs += sres.iter_runs;
                    if let Some(cr) = &sres.clone {
                        o.clone_steps += cr.steps;
                    }
                    if let Some(e) = &sres.exec.replay_error {
                        o.errors.push(format!("replay of {:?} failed: {}", hist, e));
                        return o;
                    }
                    for f in oracle::check_state(&cfg, &sres, props, &mut o.counters) {
                        o.findings.push((f, None));
                    }
                    let pre = match &sres.snap {
                        Some(s) => s,
                        None => return o,
                    };
                    if pre.canon() != canon_of[*id as usize] {
                        // the same history produced a different abstract state: behaviour depends on
                        // something outside configuration + history (C17), and merging is unsound
                        o.findings.push((
                            Finding::new("C17", "replay_determinism", format!("{:?}", cfg.kind), format!("replaying the same history twice gave two different states: {}", oracle::show(&cfg, pre))),
                            None,
                        ));
                        return o;
                    }
                    let rel;
                    let alphabet: &Vec<Op> = if cfg.relative {
                        rel = relative_ops(&cfg, pre);
                        &rel
                    } else {
                        &muts
                    };
                    for op in alphabet {
                        let t = driver.trans(hist, *op, want);
                        o.executions += driver.legs();
                        o.transitions += 1;
                        o.iter_runs += t.iter_runs;
                        if let Some(e) = &t.exec.replay_error {
                            o.errors.push(format!("replay of {:?} failed: {}", hist, e));
                            continue;
                        }
                        for f in oracle::check_trans(&cfg, pre, &sres.probe, *op, &t, props, &mut o.counters) {
                            o.findings.push((f, Some(*op)));
                        }
                        if let (Some(post), Some(ret)) = (&t.post, &t.ret) {
                            // an object with a mis-linked list is reported (C03/C14 and the policy property) and
                            // not driven further: library loops on such a structure need not terminate
                            if !matches!(ret, Ret::Panic(_)) && post.shape == 0 {
                                let pc = post.canon();
                                let mut key = canon_of[*id as usize].clone();
                                key.extend_from_slice(format!("{:?}{:?}", op, ret).as_bytes());
                                key.extend_from_slice(&pc);
                                o.digest = o.digest.wrapping_add(fnv(&key));
                                o.succs.push((pc, *op, ret.clone(), t.cb_log.clone()));
                            }
                        }
                    }
                    o
                })
                .collect();
            // ordered, sequential merge
            for ((id, hist), o) in inputs.iter().zip(outs.into_iter()) {
                ex.transitions += o.transitions;
                ex.executions += o.executions;
                ex.digest = ex.digest.wrapping_add(o.digest);
                ex.iter_runs += o.iter_runs;
                ex.clone_steps += o.clone_steps;
                for (k, v) in o.counters {
                    *ex.counters.entry(k).or_insert(0) += v;
                }
                for e in o.errors {
                    if ex.machinery_errors.len() < 5 {
                        ex.machinery_errors.push(e);
                    }
                }
                for (f, op) in o.findings {
                    if !props.contains(f.prop) {
                        continue;
                    }
                    let key = (f.prop.to_string(), f.check.clone(), f.disc.clone());
                    match viol.get_mut(&key) {
                        Some(v) => v.count += 1,
                        None => {
                            viol.insert(key, Violation { finding: f, history: hist.clone(), failing_op: op, count: 1 });
                        }
                    }
                }
                if limits.adequacy {
                    if fanout.len() <= *id as usize {
                        fanout.resize(*id as usize + 1, vec![]);
                    }
                    fanout[*id as usize] = o.succs.iter().map(|(pc, op, ret, cb)| (*op, ret.clone(), pc.clone(), cb.clone())).collect();
                }
                for (pc, op, _ret, _cb) in o.succs {
                    match seen.get(&pc) {
                        None => {
                            let nid = nodes.len() as u32;
                            seen.insert(pc.clone(), nid);
                            canon_of.push(pc);
                            nodes.push(Node { parent: *id, op, depth: depth as u32 + 1 });
                        }
                        Some(tid) => {
                            if limits.adequacy {
                                // self-loops count too: [h, op] is a different history of the same state
                                let n = &nodes[*tid as usize];
                                if !(*tid != 0 && n.parent == *id && n.op == op) {
                                    dups.push((*id, op, *tid));
                                }
                            }
                        }
                    }
                }
            }
            if nodes.len() > limits.max_states {
                capped = Some(format!("state cap {} reached while expanding depth {} (all states up to depth {} fully expanded)", limits.max_states, depth, depth.saturating_sub(1)));
                break 'levels;
            }
            if t0.elapsed().as_secs_f64() > limits.max_secs {
                capped = Some(format!("wall budget {}s reached while expanding depth {} (all states up to depth {} fully expanded)", limits.max_secs, depth, depth.saturating_sub(1)));
                break 'levels;
            }
        }
        depth += 1;
        frontier = (0..nodes.len() as u32).filter(|i| nodes[*i as usize].depth as usize == depth).collect();
    }

    if limits.adequacy && capped.is_none() {
        let results: Vec<(u64, Option<(Finding, Vec<Op>, Op)>)> = dups
            .par_iter()
            .map(|(sid, op, tid)| {
                let mut h = history(&prefill, &nodes, *sid);
                h.push(*op);
                let fo = match fanout.get(*tid as usize) {
                    Some(f) => f,
                    None => return (0, None),
                };
                let mut steps = 0;
                for (op2, ret2, pc2, cb2) in fo {
                    let t = driver.trans(&h, *op2, want);
                    steps += 1;
                    let same = t.ret.as_ref() == Some(ret2) && t.post.as_ref().map(|p| p.canon()).as_ref() == Some(pc2) && t.cb_log == *cb2;
                    if !same {
                        let f = Finding::new(
                            limits.adequacy_prop,
                            "equal_states_have_equal_futures",
                            format!("{:?}/{}", cfg.kind, oracle::op_name(op2)),
                            format!(
                                "two histories reach the same abstract state but {:?} then behaves differently: via {:?} it returns {:?} (callback saw {:?}), via {:?} it returns {:?} (callback saw {:?})",
                                op2,
                                h,
                                t.ret,
                                t.cb_log,
                                history(&prefill, &nodes, *tid),
                                Some(ret2),
                                cb2
                            ),
                        );
                        return (steps, Some((f, h.clone(), *op2)));
                    }
                }
                // deeper levels: both histories are executed side by side
                if limits.adequacy_depth > 1 {
                    let hb = history(&prefill, &nodes, *tid);
                    let mut level: Vec<(Vec<Op>, Vec<Op>)> = muts.iter().map(|m| { let mut a = h.clone(); a.push(*m); let mut b = hb.clone(); b.push(*m); (a, b) }).collect();
                    for _d in 1..limits.adequacy_depth {
                        let mut next = vec![];
                        for (a, b) in &level {
                            for op2 in &muts {
                                let ta = driver.trans(a, *op2, want);
                                let tb = driver.trans(b, *op2, want);
                                steps += 2;
                                let same = ta.ret == tb.ret && ta.cb_log == tb.cb_log && ta.post.as_ref().map(|p| p.canon()) == tb.post.as_ref().map(|p| p.canon());
                                if !same {
                                    let f = Finding::new(
                                        limits.adequacy_prop,
                                        "equal_states_have_equal_futures",
                                        format!("{:?}/{}", cfg.kind, oracle::op_name(op2)),
                                        format!(
                                            "two histories reach the same abstract state but {:?} then behaves differently: after {:?} it returns {:?} (callback saw {:?}), after {:?} it returns {:?} (callback saw {:?})",
                                            op2, a, ta.ret, ta.cb_log, b, tb.ret, tb.cb_log
                                        ),
                                    );
                                    return (steps, Some((f, a.clone(), *op2)));
                                }
                                if matches!(ta.ret, Some(Ret::Panic(_))) {
                                    continue;
                                }
                                let mut a2 = a.clone();
                                a2.push(*op2);
                                let mut b2 = b.clone();
                                b2.push(*op2);
                                next.push((a2, b2));
                            }
                        }
                        level = next;
                    }
                }
                (steps, None)
            })
            .collect();
        ex.adequacy_pairs = dups.len() as u64;
        for (steps, f) in results {
            ex.adequacy_steps += steps;
            ex.executions += steps;
            if let Some((f, h, op)) = f {
                if props.contains(f.prop) {
                    let key = (f.prop.to_string(), f.check.clone(), f.disc.clone());
                    viol.entry(key).and_modify(|v| v.count += 1).or_insert(Violation { finding: f, history: h, failing_op: Some(op), count: 1 });
                }
            }
        }
    }

    if limits.collect_histories {
        ex.histories = (0..nodes.len() as u32).map(|i| history(&prefill, &nodes, i)).collect();
    }
    ex.states = nodes.len();
    ex.max_depth = nodes.iter().map(|n| n.depth as usize).max().unwrap_or(0);
    ex.closed = capped.is_none();
    ex.capped = capped;
    ex.violations = viol.into_values().collect();
    ex.secs = t0.elapsed().as_secs_f64();
    // a few explored histories, written out
    let n = nodes.len() as u32;
    for id in [n / 3, (2 * n) / 3, n - 1] {
        let h = history(&prefill, &nodes, id);
        ex.samples.push(format!("{:?}", h));
    }
    ex
}
