//! Registry allocator (DESIGN §2.5-2).
//!
//! While a thread is *tracking*, every block it allocates is recorded (address -> size);
//! a free of a recorded block poisons it with 0xDE and quarantines it (the memory is not
//! handed back to the system until the execution ends), so
//!   * a second free of the same block is recognised (double free),
//!   * `is_live(ptr, size)` is exact and can be asked before dereferencing a node,
//!   * a read of a freed key/value yields poison, not plausible data,
//!   * at the end of an execution the set of still-live blocks is the leak set.
//! Blocks allocated while not tracking are passed straight to the system allocator.
//! Everything is thread-local; the explorer's worker threads do not share executions.

use std::alloc::{GlobalAlloc, Layout, System};
use std::cell::{Cell, RefCell};
use std::collections::HashMap;

pub struct Registry;

#[derive(Default)]
struct State {
    live: HashMap<usize, usize>,       // addr -> size (allocated while tracking)
    quarantine: Vec<(usize, Layout)>,  // freed while tracking, not yet returned
    qset: HashMap<usize, usize>,       // addr -> size of quarantined blocks
    errors: Vec<String>,
    allocs: u64,
    frees: u64,
}

thread_local! {
    static TRACKING: Cell<bool> = const { Cell::new(false) };
    static IN_HOOK: Cell<bool> = const { Cell::new(false) };
    static STATE: RefCell<Option<State>> = const { RefCell::new(None) };
}

#[inline]
fn tracking() -> bool {
    TRACKING.try_with(|t| t.get()).unwrap_or(false) && !IN_HOOK.try_with(|t| t.get()).unwrap_or(true)
}

fn with_state<R>(f: impl FnOnce(&mut State) -> R) -> R {
    IN_HOOK.with(|h| h.set(true));
    let r = STATE.with(|s| {
        let mut s = s.borrow_mut();
        if s.is_none() {
            *s = Some(State::default());
        }
        f(s.as_mut().unwrap())
    });
    IN_HOOK.with(|h| h.set(false));
    r
}

unsafe impl GlobalAlloc for Registry {
    unsafe fn alloc(&self, layout: Layout) -> *mut u8 {
        let p = System.alloc(layout);
        if !p.is_null() && tracking() {
            with_state(|s| {
                s.allocs += 1;
                s.live.insert(p as usize, layout.size());
            });
        }
        p
    }

    unsafe fn alloc_zeroed(&self, layout: Layout) -> *mut u8 {
        let p = System.alloc_zeroed(layout);
        if !p.is_null() && tracking() {
            with_state(|s| {
                s.allocs += 1;
                s.live.insert(p as usize, layout.size());
            });
        }
        p
    }

    unsafe fn dealloc(&self, p: *mut u8, layout: Layout) {
        if tracking() {
            let verdict = with_state(|s| {
                if let Some(sz) = s.live.remove(&(p as usize)) {
                    s.frees += 1;
                    if sz != layout.size() {
                        s.errors.push(format!(
                            "free of block {:#x} with size {} but it was allocated with size {}",
                            p as usize,
                            layout.size(),
                            sz
                        ));
                    }
                    s.quarantine.push((p as usize, layout));
                    s.qset.insert(p as usize, sz);
                    1
                } else if s.qset.contains_key(&(p as usize)) {
                    s.errors.push(format!("double free of block {:#x} (size {})", p as usize, layout.size()));
                    2
                } else {
                    0
                }
            });
            match verdict {
                1 => {
                    std::ptr::write_bytes(p, 0xDE, layout.size());
                    return;
                }
                2 => return,
                _ => {}
            }
        } else if !IN_HOOK.try_with(|h| h.get()).unwrap_or(true) {
            // a tracked block freed while tracking is suspended: keep the map exact
            let _ = STATE.try_with(|s| {
                if let Ok(mut s) = s.try_borrow_mut() {
                    if let Some(s) = s.as_mut() {
                        if !s.live.is_empty() {
                            IN_HOOK.with(|h| h.set(true));
                            s.live.remove(&(p as usize));
                            IN_HOOK.with(|h| h.set(false));
                        }
                    }
                }
            });
        }
        System.dealloc(p, layout)
    }

    unsafe fn realloc(&self, p: *mut u8, layout: Layout, new_size: usize) -> *mut u8 {
        if tracking() {
            // route through alloc/copy/dealloc so the bookkeeping above applies
            let new_layout = Layout::from_size_align_unchecked(new_size, layout.align());
            let np = self.alloc(new_layout);
            if !np.is_null() {
                std::ptr::copy_nonoverlapping(p, np, layout.size().min(new_size));
                self.dealloc(p, layout);
            }
            np
        } else {
            // the block may have been allocated while tracking: keep the map exact
            let known = IN_HOOK.try_with(|h| h.get()).unwrap_or(true);
            if !known {
                let was_tracked = with_state(|s| s.live.contains_key(&(p as usize)));
                if was_tracked {
                    let new_layout = Layout::from_size_align_unchecked(new_size, layout.align());
                    let np = System.alloc(new_layout);
                    if !np.is_null() {
                        std::ptr::copy_nonoverlapping(p, np, layout.size().min(new_size));
                        with_state(|s| {
                            s.live.remove(&(p as usize));
                        });
                        System.dealloc(p, layout);
                    }
                    return np;
                }
            }
            System.realloc(p, layout, new_size)
        }
    }
}

/// Start tracking on this thread with an empty registry.
pub fn begin() {
    with_state(|s| {
        debug_assert!(s.quarantine.is_empty());
        s.live.clear();
        s.qset.clear();
        s.errors.clear();
        s.allocs = 0;
        s.frees = 0;
    });
    // under Miri the interpreter itself is the memory monitor: the quarantine would hide frees from it
    if !cfg!(miri) {
        TRACKING.with(|t| t.set(true));
    }
}

/// Run `f` with tracking suspended (harness bookkeeping whose results outlive the execution).
pub fn untracked<R>(f: impl FnOnce() -> R) -> R {
    let was = TRACKING.with(|t| t.replace(false));
    let r = f();
    TRACKING.with(|t| t.set(was));
    r
}

pub fn is_tracking() -> bool {
    TRACKING.with(|t| t.get())
}

/// Is `ptr` the start of a live tracked block of exactly `size` bytes?
/// When tracking is off the answer is always "yes" (no oracle available).
pub fn is_live(ptr: *const u8, size: usize) -> bool {
    if !is_tracking() {
        return true;
    }
    with_state(|s| s.live.get(&(ptr as usize)) == Some(&size))
}

pub struct Report {
    pub errors: Vec<String>,
    pub leaked_blocks: usize,
    pub leaked_bytes: usize,
    pub leaked_sizes: Vec<usize>,
    pub allocs: u64,
    pub frees: u64,
}

/// Stop tracking, release the quarantine, and report errors and blocks still live.
pub fn end() -> Report {
    TRACKING.with(|t| t.set(false));
    let (rep, q) = with_state(|s| {
        let mut sizes: Vec<usize> = s.live.values().copied().collect();
        sizes.sort_unstable();
        let rep = Report {
            errors: std::mem::take(&mut s.errors),
            leaked_blocks: s.live.len(),
            leaked_bytes: sizes.iter().sum(),
            leaked_sizes: sizes,
            allocs: s.allocs,
            frees: s.frees,
        };
        s.live.clear();
        s.qset.clear();
        (rep, std::mem::take(&mut s.quarantine))
    });
    let mut rep = rep;
    for (p, layout) in q {
        // a freed block was poisoned and kept out of circulation: any other byte pattern is a write after free
        let intact = unsafe { std::slice::from_raw_parts(p as *const u8, layout.size()) }.iter().all(|b| *b == 0xDE);
        if !intact {
            rep.errors.push(format!("write into a freed block of {} bytes (its poison pattern was overwritten after the free)", layout.size()));
        }
        unsafe { System.dealloc(p as *mut u8, layout) };
    }
    rep
}

/// Number of tracked blocks currently live (for mid-execution accounting).
pub fn live_blocks() -> usize {
    with_state(|s| s.live.len())
}
