//! Quiet panic hook that records "message @ file:line" per thread.
use std::cell::RefCell;

thread_local! {
    static LAST: RefCell<String> = const { RefCell::new(String::new()) };
}

pub fn install() {
    std::panic::set_hook(Box::new(|info| {
        crate::alloc::untracked(|| {
            let msg = if let Some(s) = info.payload().downcast_ref::<&str>() {
                s.to_string()
            } else if let Some(s) = info.payload().downcast_ref::<String>() {
                s.clone()
            } else if info.payload().downcast_ref::<crate::track::fault::Injected>().is_some() {
                "<injected fault>".to_string()
            } else if info.payload().downcast_ref::<crate::track::HazardAbort>().is_some() {
                "<hazard abort: user code was handed a dead key/value>".to_string()
            } else {
                "<non-string panic payload>".to_string()
            };
            let injected = info.payload().downcast_ref::<crate::track::fault::Injected>().is_some() || info.payload().downcast_ref::<crate::track::HazardAbort>().is_some();
            let raw_loc = info.location().map(|l| l.file().to_string()).unwrap_or_default();
            if !injected && !raw_loc.starts_with("/repo/") && !raw_loc.starts_with("/rustc/") && !raw_loc.contains(".cargo/registry") {
                // not the crate under test: a bug in the harness itself must never be silent
                eprintln!("HARNESS PANIC: {} @ {}:{}", msg, raw_loc, info.location().map(|l| l.line()).unwrap_or(0));
            }
            let loc = info.location().map(|l| format!("{}:{}", l.file().trim_start_matches("/repo/"), l.line())).unwrap_or_default();
            LAST.with(|l| *l.borrow_mut() = format!("{} @ {}", msg, loc));
        })
    }));
}

pub fn take_last() -> String {
    crate::alloc::untracked(|| LAST.with(|l| std::mem::take(&mut *l.borrow_mut())))
}

/// location part only ("src/lru/raw.rs:358"), used as the discriminator of a panic finding
pub fn location_of(msg: &str) -> String {
    msg.rsplit(" @ ").next().unwrap_or("").to_string()
}
