//! Quiet panic hook that records "message @ file:line" per thread.
use std::cell::RefCell;
use std::sync::OnceLock;

/// property whose check is running (for a verdict straight from the panic hook, see below)
pub static CURRENT_PROP: OnceLock<String> = OnceLock::new();

/// panics located in the harness itself (never a verdict: the run ends as a machinery error)
pub static HARNESS_PANICS: std::sync::atomic::AtomicU64 = std::sync::atomic::AtomicU64::new(0);

thread_local! {
    static LAST: RefCell<String> = const { RefCell::new(String::new()) };
}

pub fn install() {
    std::panic::set_hook(Box::new(|info| {
        crate::alloc::untracked(|| {
            let msg = if let Some(s) = info.payload().downcast_ref::<&str>() {
                s.to_string()
            } else if let Some(s) = info.payload().downcast_ref::<String>() {
                s.clone()
            } else if info.payload().downcast_ref::<crate::track::fault::Injected>().is_some() {
                "<injected fault>".to_string()
            } else if info.payload().downcast_ref::<crate::track::HazardAbort>().is_some() {
                "<hazard abort: user code was handed a dead key/value>".to_string()
            } else {
                "<non-string panic payload>".to_string()
            };
            let injected = info.payload().downcast_ref::<crate::track::fault::Injected>().is_some() || info.payload().downcast_ref::<crate::track::HazardAbort>().is_some();
            let raw_loc = info.location().map(|l| l.file().to_string()).unwrap_or_default();
            let repo = format!("{}/", crate::check::repo_dir());
            if !injected && !raw_loc.starts_with(&repo) && !raw_loc.starts_with("/rustc/") && !raw_loc.contains(".cargo/registry") {
                // not the crate under test: a bug in the harness itself must never be silent
                eprintln!("HARNESS PANIC: {} @ {}:{}", msg, raw_loc, info.location().map(|l| l.line()).unwrap_or(0));
                HARNESS_PANICS.fetch_add(1, std::sync::atomic::Ordering::Relaxed);
                let loc = info.location().map(|l| format!("{}:{}", l.file(), l.line())).unwrap_or_default();
                LAST.with(|l| *l.borrow_mut() = format!("[harness] {} @ {}", msg, loc));
                return;
            }
            if (msg.contains("null pointer dereference occurred") || msg.contains("misaligned pointer dereference")) && raw_loc.starts_with(&repo) {
                // rustc's debug-assertion UB checks fire with a non-unwinding panic, i.e. the process is
                // about to abort. The dereference is in the crate under test, reached through its safe API:
                // that is a memory-safety failure of the crate and no operation outcome any property allows.
                if let Some(prop) = CURRENT_PROP.get() {
                    let dir = format!("{}/replays/{}", crate::check::verif_dir(), prop);
                    let _ = std::fs::create_dir_all(&dir);
                    let path = format!("{}/ub-check-abort.json", dir);
                    let body = format!(
                        "{{\"property\":\"{}\",\"check\":\"no_undefined_behaviour_abort\",\"detail\":\"{} @ {}:{} (rustc debug-assertion UB check inside the crate; the explorer only uses the safe API)\",\"case\":{{\"engine\":\"crash\"}}}}\n",
                        prop,
                        msg.replace('"', "'"),
                        raw_loc,
                        info.location().map(|l| l.line()).unwrap_or(0)
                    );
                    let _ = std::fs::write(&path, body);
                    println!("VIOLATION property={} replay={}", prop, path);
                    println!("  check=no_undefined_behaviour_abort: {} @ {}:{}", msg, raw_loc, info.location().map(|l| l.line()).unwrap_or(0));
                    use std::io::Write;
                    let _ = std::io::stdout().flush();
                    std::process::exit(1);
                }
            }
            if msg.contains("unsafe precondition") || msg.contains("cannot unwind") || std::env::var_os("MC_DEBUG_PANICS").is_some() {
                // such a panic aborts the process: say what it was before it does
                eprintln!("PANIC: {} @ {}:{}", msg, raw_loc, info.location().map(|l| l.line()).unwrap_or(0));
            }
            let loc = info.location().map(|l| format!("{}:{}", l.file().trim_start_matches(repo.as_str()), l.line())).unwrap_or_default();
            LAST.with(|l| *l.borrow_mut() = format!("{} @ {}", msg, loc));
        })
    }));
}

pub fn take_last() -> String {
    crate::alloc::untracked(|| LAST.with(|l| std::mem::take(&mut *l.borrow_mut())))
}

/// location part only ("src/lru/raw.rs:358"), used as the discriminator of a panic finding
pub fn location_of(msg: &str) -> String {
    msg.rsplit(" @ ").next().unwrap_or("").to_string()
}
