//! Quiet panic hook that records "message @ file:line" per thread.
use std::cell::RefCell;

thread_local! {
    static LAST: RefCell<String> = const { RefCell::new(String::new()) };
}

pub fn install() {
    std::panic::set_hook(Box::new(|info| {
        crate::alloc::untracked(|| {
            let msg = if let Some(s) = info.payload().downcast_ref::<&str>() {
                s.to_string()
            } else if let Some(s) = info.payload().downcast_ref::<String>() {
                s.clone()
            } else if info.payload().downcast_ref::<crate::track::fault::Injected>().is_some() {
                "<injected fault>".to_string()
            } else {
                "<non-string panic payload>".to_string()
            };
            let loc = info.location().map(|l| format!("{}:{}", l.file().trim_start_matches("/repo/"), l.line())).unwrap_or_default();
            LAST.with(|l| *l.borrow_mut() = format!("{} @ {}", msg, loc));
        })
    }));
}

pub fn take_last() -> String {
    crate::alloc::untracked(|| LAST.with(|l| std::mem::take(&mut *l.borrow_mut())))
}

/// location part only ("src/lru/raw.rs:358"), used as the discriminator of a panic finding
pub fn location_of(msg: &str) -> String {
    msg.rsplit(" @ ").next().unwrap_or("").to_string()
}
