//! C11 (TinyLFU estimator), C20 (SampledLFU cost accounting), their share of C05 (no panic,
//! any raw hash) and C16 (TinyLFU clone): explicit-state search over the real objects.
use crate::check::{EngineReport, Extra};
use crate::hashers::{HKind, KHKind, HB, KH};
use crate::oracle::Finding;
use crate::plan::Tier;
use caches::lfu::{SampledLFU, TinyLFU};
use rayon::prelude::*;
use serde::{Deserialize, Serialize};
use serde_json::{json, Value};
use std::collections::{BTreeMap, BTreeSet, HashMap};
use std::fmt::Debug;
use std::panic::{catch_unwind, AssertUnwindSafe};

// ------------------------------------------------------------------ generic BFS over histories

pub struct EvalOut {
    /// canonical state key; None = do not expand (panic / broken)
    pub key: Option<Vec<u8>>,
    pub findings: Vec<Finding>,
    pub nontrivial: bool,
}

pub struct BfsOut<O> {
    pub states: u64,
    pub evals: u64,
    pub max_depth: usize,
    pub closed: bool,
    pub capped: Option<String>,
    pub findings: Vec<(Finding, Vec<O>)>,
    pub nontrivial: u64,
    pub sample: Vec<Vec<O>>,
    /// executions spent on the look-ahead of merged histories
    pub lookahead: u64,
}

pub fn bfs<O: Clone + Send + Sync + Debug>(ops: &[O], max_states: usize, max_depth: usize, eval: &(dyn Fn(&[O]) -> EvalOut + Sync)) -> BfsOut<O> {
    bfs_la(ops, max_states, max_depth, 0, eval)
}

/// `la_levels` > 0: abstraction adequacy by look-ahead. A history of length <= `la_levels` whose state
/// key was already reached by another history is not expanded, but every one-step extension of it is
/// still executed and judged — so an object that *looks* like a known state but is internally
/// different (a corrupted index, a stale cache) is driven one step further on its own.
pub fn bfs_la<O: Clone + Send + Sync + Debug>(ops: &[O], max_states: usize, max_depth: usize, la_levels: usize, eval: &(dyn Fn(&[O]) -> EvalOut + Sync)) -> BfsOut<O> {
    let mut out = BfsOut { states: 0, evals: 0, max_depth: 0, closed: true, capped: None, findings: vec![], nontrivial: 0, sample: vec![], lookahead: 0 };
    let mut seen: HashMap<Vec<u8>, ()> = HashMap::new();
    let r0 = eval(&[]);
    out.evals += 1;
    for f in r0.findings {
        out.findings.push((f, vec![]));
    }
    let k0 = match r0.key {
        Some(k) => k,
        None => return out,
    };
    seen.insert(k0, ());
    let mut frontier: Vec<Vec<O>> = vec![vec![]];
    let mut depth = 0;
    while !frontier.is_empty() {
        if depth >= max_depth {
            out.closed = false;
            out.capped = Some(format!("depth bound {} reached ({} states in the frontier); all histories up to that length are covered", max_depth, frontier.len()));
            break;
        }
        let mut next: Vec<Vec<O>> = vec![];
        let mut dups: Vec<Vec<O>> = vec![];
        for chunk in frontier.chunks(4096) {
            let results: Vec<Vec<(Vec<O>, EvalOut)>> = chunk
                .par_iter()
                .map(|h| {
                    ops.iter()
                        .map(|op| {
                            let mut h2 = h.clone();
                            h2.push(op.clone());
                            let r = eval(&h2);
                            (h2, r)
                        })
                        .collect()
                })
                .collect();
            for group in results {
                for (h2, r) in group {
                    out.evals += 1;
                    if r.nontrivial {
                        out.nontrivial += 1;
                    }
                    for f in r.findings {
                        if out.findings.len() < 2000 {
                            out.findings.push((f, h2.clone()));
                        }
                    }
                    if let Some(k) = r.key {
                        if !seen.contains_key(&k) {
                            seen.insert(k, ());
                            if out.sample.len() < 3 && h2.len() >= 3 {
                                out.sample.push(h2.clone());
                            }
                            next.push(h2);
                        } else if depth < la_levels {
                            dups.push(h2);
                        }
                    }
                }
            }
            if seen.len() > max_states {
                out.closed = false;
                out.capped = Some(format!("state cap {} reached at depth {}", max_states, depth + 1));
                out.states = seen.len() as u64;
                out.max_depth = depth + 1;
                return out;
            }
        }
        for chunk in dups.chunks(4096) {
            let results: Vec<Vec<(Vec<O>, EvalOut)>> = chunk
                .par_iter()
                .map(|h| {
                    ops.iter()
                        .map(|op| {
                            let mut h2 = h.clone();
                            h2.push(op.clone());
                            let r = eval(&h2);
                            (h2, r)
                        })
                        .collect()
                })
                .collect();
            for group in results {
                for (h2, r) in group {
                    out.evals += 1;
                    out.lookahead += 1;
                    for f in r.findings {
                        if out.findings.len() < 2000 {
                            out.findings.push((f, h2.clone()));
                        }
                    }
                }
            }
        }
        depth += 1;
        frontier = next;
    }
    out.states = seen.len() as u64;
    out.max_depth = depth;
    out
}

// ------------------------------------------------------------------ TinyLFU

#[derive(Clone, Debug, Serialize, Deserialize, PartialEq)]
pub struct TlCfg {
    pub size: usize,
    pub samples: usize,
    pub fpr: f64,
    pub seeds: [u64; 4],
    pub hashes: Vec<u64>,
    pub key_ops: bool,
}

#[derive(Clone, Copy, Debug, Serialize, Deserialize, PartialEq)]
pub enum TlOp {
    Inc(u64),
    /// increment_hashed_keys(&[a, b])
    Inc2(u64, u64),
    TryReset,
    Clear,
    /// increment(&key) / increment_keys(&[&key]) through the object's own key hasher
    IncKey(u64),
    IncKeys(u64),
    /// continue on a clone of the estimator (it has recorded everything the original has)
    CloneReplace,
    /// `other.clone_from(&estimator)` onto an estimator of another geometry that has recorded other keys
    CloneFromReplace,
}

#[derive(Clone, Default)]
struct TlRef {
    door: BTreeMap<u64, bool>,
    cnt: BTreeMap<u64, u8>,
    w: usize,
    touched: BTreeSet<u64>,
    /// the same bookkeeping per *key* for the key-based entry points (whatever the key hashes to)
    kdoor: BTreeMap<u64, bool>,
    kcnt: BTreeMap<u64, u8>,
}

impl TlRef {
    fn tick(&mut self, samples: usize) {
        self.w += 1;
        if self.w >= samples {
            self.w = 0;
            for d in self.door.values_mut() {
                *d = false;
            }
            for c in self.cnt.values_mut() {
                *c /= 2;
            }
            for d in self.kdoor.values_mut() {
                *d = false;
            }
            for c in self.kcnt.values_mut() {
                *c /= 2;
            }
        }
    }
    /// an access by key: recorded per key, before the matching `inc(hash)` (which also advances the window)
    fn note_key(&mut self, k: u64) {
        let d = self.kdoor.entry(k).or_insert(false);
        if !*d {
            *d = true;
        } else {
            let c = self.kcnt.entry(k).or_insert(0);
            *c = (*c + 1).min(15);
        }
    }
    fn kexact(&self, k: u64) -> u64 {
        *self.kcnt.get(&k).unwrap_or(&0) as u64 + *self.kdoor.get(&k).unwrap_or(&false) as u64
    }
    fn inc(&mut self, h: u64, samples: usize) {
        self.touched.insert(h);
        let d = self.door.entry(h).or_insert(false);
        if !*d {
            *d = true;
        } else {
            let c = self.cnt.entry(h).or_insert(0);
            *c = (*c + 1).min(15);
        }
        self.tick(samples);
    }
    fn clear(&mut self) {
        *self = TlRef::default();
    }
    fn exact(&self, h: u64) -> u64 {
        *self.cnt.get(&h).unwrap_or(&0) as u64 + *self.door.get(&h).unwrap_or(&false) as u64
    }
    fn canon(&self, hs: &[u64]) -> Vec<u8> {
        let mut b = vec![self.w as u8];
        for h in hs {
            b.push(*self.cnt.get(h).unwrap_or(&0) | ((*self.door.get(h).unwrap_or(&false) as u8) << 7) | ((self.touched.contains(h) as u8) << 6));
        }
        for (k, c) in &self.kcnt {
            b.extend_from_slice(&[*k as u8, *c]);
        }
        for (k, d) in &self.kdoor {
            b.extend_from_slice(&[*k as u8, *d as u8]);
        }
        b
    }
}

fn tl_canon(s: &caches::lfu::VerifTinyLFUState) -> Vec<u8> {
    let mut b = vec![];
    for r in &s.rows {
        b.extend_from_slice(r);
    }
    for w in &s.bitset {
        b.extend_from_slice(&w.to_le_bytes());
    }
    b.extend_from_slice(&(s.w as u32).to_le_bytes());
    b
}

fn caught<R>(f: impl FnOnce() -> R) -> Result<R, String> {
    catch_unwind(AssertUnwindSafe(f)).map_err(|_| crate::panics::take_last())
}

fn tl_apply(l: &mut TinyLFU<u64>, r: &mut TlRef, cfg: &TlCfg, op: TlOp) {
    match op {
        TlOp::Inc(h) => {
            l.increment_hashed_key(h);
            r.inc(h, cfg.samples);
        }
        TlOp::Inc2(a, b) => {
            l.increment_hashed_keys(&[a, b]);
            r.inc(a, cfg.samples);
            r.inc(b, cfg.samples);
        }
        TlOp::TryReset => {
            l.try_reset();
            r.tick(cfg.samples);
        }
        TlOp::Clear => {
            l.clear();
            r.clear();
        }
        TlOp::IncKey(k) => {
            let h = l.hash_key(&k);
            l.increment(&k);
            r.note_key(k);
            r.inc(h, cfg.samples);
        }
        TlOp::IncKeys(k) => {
            let h = l.hash_key(&k);
            l.increment_keys(&[&k]);
            r.note_key(k);
            r.inc(h, cfg.samples);
        }
        TlOp::CloneReplace => {
            let c = l.clone();
            *l = c;
        }
        TlOp::CloneFromReplace => {
            let mut dst: TinyLFU<u64> = TinyLFU::new(cfg.size + 3, cfg.samples + 2, 0.3).unwrap();
            dst.increment_hashed_key(77);
            dst.increment_hashed_key(78);
            dst.clone_from(l);
            *l = dst;
        }
    }
}

/// builds, replays `hist`, checks the final state (and clone behaviour) — one execution
fn tl_eval(cfg: &TlCfg, hist: &[TlOp], prop: &str) -> EvalOut {
    let mut out = EvalOut { key: None, findings: vec![], nontrivial: false };
    let disc = format!("size={},samples={}", cfg.size, cfg.samples);
    let mut l: TinyLFU<u64> = match caught(|| TinyLFU::new(cfg.size, cfg.samples, cfg.fpr)) {
        Ok(Ok(l)) => l,
        Ok(Err(e)) => {
            out.findings.push(Finding::new("C05", "tinylfu.valid_arguments_accepted", disc, format!("TinyLFU::new({}, {}, {}) was rejected: {:?}", cfg.size, cfg.samples, cfg.fpr, e)));
            return out;
        }
        Err(m) => {
            out.findings.push(Finding::new("C05", "no_panic", format!("TinyLFU::new:{}", crate::panics::location_of(&m)), format!("TinyLFU::new({}, {}, {}) panicked: {}", cfg.size, cfg.samples, cfg.fpr, m)));
            return out;
        }
    };
    l.verif_set_seeds(cfg.seeds);
    let mut r = TlRef::default();
    for (i, op) in hist.iter().enumerate() {
        if let Err(m) = caught(|| tl_apply(&mut l, &mut r, cfg, *op)) {
            if i + 1 == hist.len() {
                out.findings.push(Finding::new("C05", "no_panic", format!("TinyLFU:{}", crate::panics::location_of(&m)), format!("{:?} panicked after {:?} on TinyLFU(size {}, samples {}): {}", op, &hist[..i], cfg.size, cfg.samples, m)));
            }
            return out;
        }
    }
    // the hashes whose estimates are observed: the alphabet, plus the hashes of the keys used
    let mut hs: Vec<u64> = cfg.hashes.clone();
    let keyed: Vec<u64> = if cfg.key_ops { vec![10, 11, 12] } else { vec![] };
    for k in &keyed {
        hs.push(l.hash_key(k));
    }
    let st = l.verif_state();
    let observed = caught(|| {
        let mut f = vec![];
        let mut nontrivial = false;
        for h in &hs {
            let est = l.estimate_hashed_key(*h);
            let exact = r.exact(*h);
            if est > 0 {
                nontrivial = true;
            }
            if est < exact {
                f.push(Finding::new("C11", "never_under_counts", disc.clone(), format!("estimate({:#x}) = {} but the exact aged count is {} after {:?}", h, est, exact, hist)));
            }
            if est > 16 {
                f.push(Finding::new("C11", "at_most_16", disc.clone(), format!("estimate({:#x}) = {} after {:?}", h, est, hist)));
            }
            if r.touched.iter().all(|t| t == h) && est != exact {
                f.push(Finding::new(
                    "C11",
                    if r.touched.is_empty() { "zero_after_clear" } else { "exact_for_single_key" },
                    disc.clone(),
                    format!("estimate({:#x}) = {} but only this key was ever recorded and its exact aged count is {} after {:?}", h, est, exact, hist),
                ));
            }
            if *r.door.get(h).unwrap_or(&false) && !l.contains_hash(*h) {
                f.push(Finding::new("C11", "doorkeeper_no_false_negative", disc.clone(), format!("contains_hash({:#x}) is false although the key was recorded since the last reset, after {:?}", h, hist)));
            }
        }
        for k in &keyed {
            // per key, whatever it hashes to (a clone whose key hasher maps keys elsewhere loses them)
            let (est, exact) = (l.estimate(k), r.kexact(*k));
            if est < exact {
                f.push(Finding::new("C11", "never_under_counts", format!("{}/by-key", disc), format!("estimate(&{}) = {} but the exact aged count of accesses recorded for that key is {} after {:?}", k, est, exact, hist)));
            }
            if *r.kdoor.get(k).unwrap_or(&false) && !l.contains(k) {
                f.push(Finding::new("C11", "doorkeeper_no_false_negative", format!("{}/by-key", disc), format!("contains(&{}) is false although the key was recorded since the last reset, after {:?}", k, hist)));
            }
            let h = l.hash_key(k);
            if l.estimate(k) != l.estimate_hashed_key(h) || l.contains(k) != l.contains_hash(h) {
                f.push(Finding::new("C11", "key_and_hash_entry_points_agree", disc.clone(), format!("estimate/contains of key {} disagree with the same query by hash after {:?}", k, hist)));
            }
        }
        // comparison helpers order two keys exactly as their estimates do
        for a in &keyed {
            for b in &keyed {
                let (ea, eb) = (l.estimate(a), l.estimate(b));
                let got = [l.lt(a, b), l.le(a, b), l.gt(a, b), l.ge(a, b), l.eq(a, b)];
                let want = [ea < eb, ea <= eb, ea > eb, ea >= eb, ea == eb];
                if got != want {
                    let which = ["lt", "le", "gt", "ge", "eq"].iter().zip(got.iter().zip(want.iter())).filter(|(_, (g, w))| g != w).map(|(n, _)| *n).collect::<Vec<_>>().join(",");
                    f.push(Finding::new("C11", "comparisons_follow_estimates", which.clone(), format!("{} wrong for estimates {} vs {} (keys {}, {}) after {:?}", which, ea, eb, a, b, hist)));
                }
            }
        }
        (f, nontrivial)
    });
    match observed {
        Ok((f, nt)) => {
            out.findings.extend(f);
            out.nontrivial = nt;
        }
        Err(m) => {
            out.findings.push(Finding::new("C05", "no_panic", format!("TinyLFU:{}", crate::panics::location_of(&m)), format!("a read-only call panicked after {:?}: {}", hist, m)));
            return out;
        }
    }
    if st.w != r.w {
        out.findings.push(Finding::new("C11", "reset_on_schedule", disc.clone(), format!("{} accesses recorded since the last reset according to the estimator, {} according to the schedule (samples {}), after {:?}", st.w, r.w, cfg.samples, hist)));
    }
    // observers left the state alone (C13 for the bare estimator is part of C11's "estimate" being a query)
    let st2 = l.verif_state();
    if st2 != st {
        out.findings.push(Finding::new("C11", "queries_are_read_only", disc.clone(), format!("estimate/contains/compare changed the estimator state after {:?}", hist)));
    }
    // C16: clone is identical and independent
    if prop == "C16" {
        let mut c2 = l.clone();
        if c2.verif_state() != st {
            out.findings.push(Finding::new("C16", "tinylfu_clone", "snapshot", format!("clone of a TinyLFU differs from the original after {:?}", hist)));
        }
        for k in &keyed {
            if c2.hash_key(k) != l.hash_key(k) || c2.estimate(k) != l.estimate(k) || c2.contains(k) != l.contains(k) {
                out.findings.push(Finding::new("C16", "tinylfu_clone", "key_queries", format!("the clone answers hash_key/estimate/contains of key {} differently from the original after {:?}", k, hist)));
            }
        }
        for h in &hs {
            if c2.estimate_hashed_key(*h) != l.estimate_hashed_key(*h) || c2.contains_hash(*h) != l.contains_hash(*h) {
                out.findings.push(Finding::new("C16", "tinylfu_clone", "hash_queries", format!("the clone answers estimate/contains of hash {:#x} differently from the original after {:?}", h, hist)));
            }
        }
        let ops = tl_ops(cfg);
        // the original side of the bisimulation is an object that was never cloned (rebuilt by replaying the history)
        let rebuild = || -> Option<TinyLFU<u64>> {
            let mut o: TinyLFU<u64> = TinyLFU::new(cfg.size, cfg.samples, cfg.fpr).ok()?;
            o.verif_set_seeds(cfg.seeds);
            let mut rr = TlRef::default();
            for op in hist {
                if matches!(op, TlOp::IncKey(_) | TlOp::IncKeys(_)) {
                    return None; // key-based steps hash through a per-object RandomState: not replayable onto another object
                }
                caught(|| tl_apply(&mut o, &mut rr, cfg, *op)).ok()?;
            }
            Some(o)
        };
        for op in &ops {
            // (key-based configurations hash through a per-object RandomState, so there the original side has
            // to be a clone as well; their clone is compared query by query above)
            let mut a = match if cfg.key_ops { None } else { rebuild() } {
                Some(a) => a,
                None => l.clone(),
            };
            let mut b = c2.clone();
            let mut ra = r.clone();
            let mut rb = r.clone();
            let _ = caught(|| tl_apply(&mut a, &mut ra, cfg, *op));
            let _ = caught(|| tl_apply(&mut b, &mut rb, cfg, *op));
            if a.verif_state() != b.verif_state() || hs.iter().any(|h| a.estimate_hashed_key(*h) != b.estimate_hashed_key(*h) || a.contains_hash(*h) != b.contains_hash(*h)) {
                out.findings.push(Finding::new("C16", "tinylfu_clone", "bisimulation", format!("{:?} behaves differently on a clone than on the original after {:?}", op, hist)));
            }
        }
        // independence
        c2.clear();
        for h in &hs {
            c2.increment_hashed_key(*h);
        }
        if l.verif_state() != st {
            out.findings.push(Finding::new("C16", "tinylfu_clone", "independence", format!("mutating a clone changed the original after {:?}", hist)));
        }
        drop(c2);
        if l.verif_state() != st {
            out.findings.push(Finding::new("C16", "tinylfu_clone", "independence", format!("dropping a clone changed the original after {:?}", hist)));
        }
    }
    let mut key = tl_canon(&st);
    key.extend(r.canon(&hs));
    out.key = Some(key);
    out
}

fn tl_ops(cfg: &TlCfg) -> Vec<TlOp> {
    let mut v: Vec<TlOp> = cfg.hashes.iter().map(|h| TlOp::Inc(*h)).collect();
    if cfg.hashes.len() >= 2 {
        v.push(TlOp::Inc2(cfg.hashes[0], cfg.hashes[1]));
    }
    v.push(TlOp::TryReset);
    v.push(TlOp::Clear);
    v.push(TlOp::CloneFromReplace);
    if cfg.key_ops {
        v.push(TlOp::IncKey(10));
        v.push(TlOp::IncKey(11));
        v.push(TlOp::IncKeys(12));
        v.push(TlOp::CloneReplace);
    }
    v
}

fn tl_menu(prop: &str, tier: Tier) -> Vec<(TlCfg, usize, usize)> {
    // (cfg, max_states, max_depth)
    let mut v = vec![];
    let seeds = crate::plan::SEEDS;
    let big = tier == Tier::Thorough;
    let base_hashes: Vec<u64> = vec![0, 1, 2];
    let wide_hashes: Vec<u64> = vec![0, 1, 2, 3, 1 << 32, u64::MAX];
    let c05_hashes: Vec<u64> = vec![0, 1, (1 << 32) - 1, 1 << 32, 1 << 63, u64::MAX - 1, u64::MAX];
    match prop {
        "C05" => {
            for size in [1usize, 2, 3, 8] {
                for samples in [1usize, 2, 5] {
                    v.push((TlCfg { size, samples, fpr: 0.01, seeds: seeds[0], hashes: c05_hashes.clone(), key_ops: false }, if big { 200_000 } else { 20_000 }, if big { 6 } else { 3 }));
                }
            }
            // long sample windows: counters run into their ceiling (and beyond, if the clamp is wrong)
            v.push((TlCfg { size: 4, samples: 80, fpr: 0.01, seeds: seeds[0], hashes: vec![2, 3], key_ops: false }, 200_000, 200));
            v.push((TlCfg { size: 2, samples: 50, fpr: 0.01, seeds: seeds[2], hashes: vec![0, 1], key_ops: false }, 200_000, 200));
            v.push((TlCfg { size: 5, samples: 3, fpr: 0.999_999, seeds: seeds[2], hashes: c05_hashes.clone(), key_ops: false }, 20_000, 3));
            v.push((TlCfg { size: 4, samples: 4, fpr: 5e-324, seeds: seeds[3], hashes: c05_hashes.clone(), key_ops: false }, 20_000, 3));
        }
        "C16" => {
            // key-based entry points: the clone must hash keys exactly as the original does
            v.push((TlCfg { size: 4, samples: 4, fpr: 0.01, seeds: seeds[0], hashes: vec![1], key_ops: true }, usize::MAX, if big { 6 } else { 4 }));
            v.push((TlCfg { size: 2, samples: 3, fpr: 0.01, seeds: seeds[0], hashes: base_hashes.clone(), key_ops: false }, 50_000, if big { 12 } else { 8 }));
            v.push((TlCfg { size: 4, samples: 4, fpr: 0.5, seeds: seeds[2], hashes: base_hashes.clone(), key_ops: false }, 50_000, if big { 10 } else { 6 }));
            // doorkeepers larger than the 512-bit minimum (more samples, or a tiny false-positive ratio):
            // the clone must probe the same bits
            v.push((TlCfg { size: 4, samples: 60, fpr: 0.01, seeds: seeds[0], hashes: vec![0, 1, 512, 1 << 40], key_ops: false }, 50_000, if big { 5 } else { 3 }));
            v.push((TlCfg { size: 8, samples: 1000, fpr: 0.01, seeds: seeds[3], hashes: vec![3, 1024, u64::MAX], key_ops: false }, 50_000, if big { 5 } else { 3 }));
            v.push((TlCfg { size: 2, samples: 5, fpr: 1e-9, seeds: seeds[1], hashes: vec![0, 7, 1 << 33], key_ops: true }, 50_000, if big { 4 } else { 3 }));
        }
        _ => {
            // closures of tiny sketches (hash-only alphabet: deterministic, merges on the hook snapshot)
            for (size, samples) in [(1usize, 1usize), (1, 2), (2, 3), (4, 4), (2, 8)] {
                for si in 0..(if big { 4 } else { 2 }) {
                    v.push((
                        TlCfg { size, samples, fpr: if si % 2 == 0 { 0.01 } else { 0.5 }, seeds: seeds[si], hashes: base_hashes.clone(), key_ops: false },
                        if big { 400_000 } else { 60_000 },
                        if big { 40 } else { 14 },
                    ));
                }
            }
            // counters saturate at 15: needs more than 17 accesses of one key inside one sample window
            // (two hashes whose counter indices have different parity in some row, closure of the whole window)
            for (si, samples) in [(0usize, 20usize), (2, 40), (3, 19)] {
                v.push((TlCfg { size: 4, samples, fpr: 0.01, seeds: seeds[si], hashes: vec![2, 5], key_ops: false }, 400_000, 200));
            }
            // false-positive ratios across (0,1): the doorkeeper geometry (number of probe locations) changes with it
            for (fpr, samples) in [(0.6, 4usize), (0.9, 4), (0.99, 8), (0.3, 3), (1e-9, 2)] {
                v.push((TlCfg { size: 2, samples, fpr, seeds: seeds[0], hashes: base_hashes.clone(), key_ops: false }, if big { 400_000 } else { 60_000 }, if big { 40 } else { 12 }));
            }
            // two keys driven to the top of the counter range through the key-based entry points: lt/le/gt/ge/eq have
            // to order 15 and 16 like any other pair
            v.push((TlCfg { size: 8, samples: 64, fpr: 0.01, seeds: seeds[0], hashes: vec![], key_ops: true }, if big { 400_000 } else { 60_000 }, 36));
            // rows of 32 and more counters (word-at-a-time code paths): 33 raw hashes cover every counter index
            // modulo 32 in every row whatever the seeds; three accesses, then the reset of a 4-access window
            v.push((TlCfg { size: 32, samples: 4, fpr: 0.01, seeds: seeds[0], hashes: (0..33).collect(), key_ops: false }, if big { 2_000_000 } else { 400_000 }, 4));
            v.push((TlCfg { size: 64, samples: 4, fpr: 0.01, seeds: seeds[3], hashes: (0..65).step_by(2).chain(31..32).chain(63..64).collect(), key_ops: false }, if big { 2_000_000 } else { 400_000 }, 4));
            if big {
                // a wider sweep of sketch geometries (row widths 4..128 counters, every seed set)
                for (i, size) in [3usize, 5, 8, 32, 64, 100].into_iter().enumerate() {
                    for (j, samples) in [2usize, 5, 16].into_iter().enumerate() {
                        let si = (i + j) % 4;
                        v.push((TlCfg { size, samples, fpr: [0.01, 0.2, 0.5][j], seeds: seeds[si], hashes: vec![0, 1, 2, u64::MAX], key_ops: false }, 250_000, 24));
                    }
                }
            }
            v.push((TlCfg { size: 16, samples: 4, fpr: 0.01, seeds: seeds[0], hashes: wide_hashes.clone(), key_ops: false }, if big { 600_000 } else { 40_000 }, if big { 12 } else { 6 }));
            v.push((TlCfg { size: 16, samples: 8, fpr: 0.01, seeds: seeds[3], hashes: wide_hashes.clone(), key_ops: false }, if big { 600_000 } else { 40_000 }, if big { 10 } else { 5 }));
            // key-based entry points (DefaultKeyHasher = RandomState: no merging across builds is assumed,
            // the key includes the per-build hashes, so this is a depth-bounded enumeration)
            v.push((TlCfg { size: 4, samples: 4, fpr: 0.01, seeds: seeds[0], hashes: vec![1], key_ops: true }, usize::MAX, if big { 7 } else { 5 }));
            v.push((TlCfg { size: 16, samples: 3, fpr: 0.01, seeds: seeds[1], hashes: vec![], key_ops: true }, usize::MAX, if big { 8 } else { 5 }));
        }
    }
    v
}

pub fn run_tinylfu(prop: &'static str, tier: Tier) -> EngineReport {
    let mut rep = EngineReport { name: format!("tinylfu-explicit-state ({})", if cfg!(feature = "std") { "std sketch" } else { "no_std sketch" }), exhaustive: true, ..Default::default() };
    let mut details = vec![];
    for (cfg, max_states, max_depth) in tl_menu(prop, tier) {
        let ops = tl_ops(&cfg);
        let p = prop;
        let c2 = cfg.clone();
        let out = bfs(&ops, max_states, max_depth, &move |h: &[TlOp]| tl_eval(&c2, h, p));
        rep.states += out.states;
        rep.transitions += out.evals;
        rep.evaluations += out.evals;
        rep.distinct_nontrivial += out.nontrivial.min(out.states);
        if !out.closed {
            rep.exhaustive = false;
        }
        details.push(json!({"config": cfg, "ops": ops.len(), "states": out.states, "executions": out.evals, "depth": out.max_depth, "closed": out.closed, "capped": out.capped, "states_with_nonzero_estimates": out.nontrivial}));
        for s in out.sample.iter().take(1) {
            rep.samples.push(json!({"engine": "tinylfu", "config": cfg, "history": format!("{:?}", s)}));
        }
        for (f, h) in out.findings {
            if f.prop == prop {
                rep.violations.push(Extra { finding: f, case: json!({"engine": "tinylfu", "cfg": cfg, "history": h, "prop": prop}), count: 1 });
            }
        }
    }
    rep.capped = if rep.exhaustive { None } else { Some("some estimator configurations are depth-bounded (see detail)".into()) };
    rep.detail = json!(details);
    rep
}

pub fn replay_tinylfu(prop: &str, case: &Value) -> Vec<Finding> {
    let cfg: TlCfg = serde_json::from_value(case["cfg"].clone()).unwrap();
    let hist: Vec<TlOp> = serde_json::from_value(case["history"].clone()).unwrap();
    let mut all = vec![];
    for n in 0..=hist.len() {
        all.extend(tl_eval(&cfg, &hist[..n], prop).findings);
    }
    all
}

// ------------------------------------------------------------------ SampledLFU

#[derive(Clone, Debug, Serialize, Deserialize, PartialEq)]
pub struct SlCfg {
    /// 0 new, 1 with_samples, 2 with_hasher, 3 with_samples_and_hasher, 4 with_key_hasher,
    /// 5 with_samples_and_key_hasher, 6 with_samples_and_key_hasher_and_hasher
    pub ctor: u8,
    pub max_cost: i64,
    pub samples: usize,
    pub costs: Vec<i64>,
    pub hasher: HKind,
    /// the raw hashed keys of the alphabet (empty = 0, 1, u64::MAX)
    #[serde(default)]
    pub hashes: Vec<u64>,
}

#[derive(Clone, Copy, Debug, Serialize, Deserialize, PartialEq)]
pub enum SlOp {
    Inc(u64, i64),
    Upd(u64, i64),
    Rem(u64),
    IncKey(u64, i64),
    UpdKey(u64, i64),
    RemKey(u64),
    Clear,
    MaxCost(i64),
}

trait Sl {
    fn apply(&mut self, op: SlOp) -> Option<Result<bool, Option<i64>>>;
    fn room_left(&self, c: i64) -> i64;
    fn max_cost(&self) -> i64;
    fn hk(&self, k: u64) -> u64;
    fn fill(&mut self, v: Vec<(u64, i64)>) -> Vec<(u64, i64)>;
}

impl<KHx: caches::lfu::KeyHasher<u64>, S: std::hash::BuildHasher> Sl for SampledLFU<u64, KHx, S> {
    fn apply(&mut self, op: SlOp) -> Option<Result<bool, Option<i64>>> {
        match op {
            SlOp::Inc(h, c) => {
                self.increment_hashed_key(h, c);
                None
            }
            SlOp::Upd(h, c) => Some(Ok(self.update_hashed_key(h, c))),
            SlOp::Rem(h) => Some(Err(self.remove_hashed_key(h))),
            SlOp::IncKey(k, c) => {
                self.increment(&k, c);
                None
            }
            SlOp::UpdKey(k, c) => Some(Ok(self.update(&k, c))),
            SlOp::RemKey(k) => Some(Err(self.remove(&k))),
            SlOp::Clear => {
                self.clear();
                None
            }
            SlOp::MaxCost(m) => {
                self.update_max_cost(m);
                None
            }
        }
    }
    fn room_left(&self, c: i64) -> i64 {
        SampledLFU::room_left(self, c)
    }
    fn max_cost(&self) -> i64 {
        self.get_max_cost()
    }
    fn hk(&self, k: u64) -> u64 {
        self.hash_key(&k)
    }
    fn fill(&mut self, v: Vec<(u64, i64)>) -> Vec<(u64, i64)> {
        self.fill_sample(v)
    }
}

fn sl_build(cfg: &SlCfg) -> Box<dyn Sl> {
    let kh = KH(KHKind::Spread);
    let hb = HB::new(cfg.hasher);
    match cfg.ctor {
        0 => Box::new(SampledLFU::<u64>::new(cfg.max_cost)),
        1 => Box::new(SampledLFU::<u64>::with_samples(cfg.max_cost, cfg.samples)),
        2 => Box::new(SampledLFU::<u64, caches::lfu::DefaultKeyHasher<u64>, HB>::with_hasher(cfg.max_cost, hb)),
        3 => Box::new(SampledLFU::<u64, caches::lfu::DefaultKeyHasher<u64>, HB>::with_samples_and_hasher(cfg.max_cost, cfg.samples, hb)),
        4 => Box::new(SampledLFU::<u64, KH>::with_key_hasher(cfg.max_cost, kh)),
        5 => Box::new(SampledLFU::<u64, KH>::with_samples_and_key_hasher(cfg.max_cost, cfg.samples, kh)),
        _ => Box::new(SampledLFU::<u64, KH, HB>::with_samples_and_key_hasher_and_hasher(cfg.max_cost, cfg.samples, kh, hb)),
    }
}

fn sl_samples(cfg: &SlCfg) -> usize {
    if matches!(cfg.ctor, 0 | 2 | 4) {
        5
    } else {
        cfg.samples
    }
}

fn sl_eval(cfg: &SlCfg, hist: &[SlOp]) -> EvalOut {
    let mut out = EvalOut { key: None, findings: vec![], nontrivial: false };
    let disc = format!("ctor{}", cfg.ctor);
    let mut s = match caught(|| sl_build(cfg)) {
        Ok(s) => s,
        Err(m) => {
            out.findings.push(Finding::new("C05", "no_panic", format!("SampledLFU::ctor{}:{}", cfg.ctor, crate::panics::location_of(&m)), format!("constructor {} panicked: {}", cfg.ctor, m)));
            return out;
        }
    };
    let samples = sl_samples(cfg);
    let mut map: BTreeMap<u64, i64> = BTreeMap::new();
    let mut max = cfg.max_cost;
    for (i, op) in hist.iter().enumerate() {
        let last = i + 1 == hist.len();
        // reference step (keys through this object's own key hasher)
        let (slot, expect): (Option<u64>, Option<Result<bool, Option<i64>>>) = match *op {
            SlOp::Inc(h, c) => {
                map.insert(h, c);
                (Some(h), None)
            }
            SlOp::IncKey(k, c) => {
                let h = s.hk(k);
                map.insert(h, c);
                (Some(h), None)
            }
            SlOp::Upd(h, c) => {
                let was = map.contains_key(&h);
                if was {
                    map.insert(h, c);
                }
                (Some(h), Some(Ok(was)))
            }
            SlOp::UpdKey(k, c) => {
                let h = s.hk(k);
                let was = map.contains_key(&h);
                if was {
                    map.insert(h, c);
                }
                (Some(h), Some(Ok(was)))
            }
            SlOp::Rem(h) => (Some(h), Some(Err(map.remove(&h)))),
            SlOp::RemKey(k) => {
                let h = s.hk(k);
                (Some(h), Some(Err(map.remove(&h))))
            }
            SlOp::Clear => {
                map.clear();
                (None, None)
            }
            SlOp::MaxCost(m) => {
                max = m;
                (None, None)
            }
        };
        let _ = slot;
        // outside the domain: the true running total itself does not fit in an i64 (nothing is judged there)
        let tot: i128 = map.values().map(|v| *v as i128).sum();
        if tot > i64::MAX as i128 || tot < i64::MIN as i128 {
            return out;
        }
        match caught(|| s.apply(*op)) {
            Err(m) => {
                if last && !m.starts_with("[harness]") {
                    out.findings.push(Finding::new("C05", "no_panic", format!("SampledLFU:{}", crate::panics::location_of(&m)), format!("{:?} panicked after {:?}: {}", op, &hist[..i], m)));
                    // every running total of this history is representable (checked above): the accounting has no
                    // outcome "panic"
                    out.findings.push(Finding::new("C20", "accounting_operation_completes", disc.clone(), format!("{:?} panicked after {:?} although every exact total involved fits in an i64: {}", op, &hist[..i], m)));
                }
                return out;
            }
            Ok(got) => {
                if last && got != expect {
                    out.findings.push(Finding::new(
                        "C20",
                        if matches!(op, SlOp::Upd(..) | SlOp::UpdKey(..)) { "update_reports_tracked" } else { "remove_reports_recorded_cost" },
                        disc.clone(),
                        format!("{:?} returned {:?}, expected {:?}, after {:?}", op, got, expect, &hist[..i]),
                    ));
                }
            }
        }
    }
    let total: i64 = map.values().map(|v| *v as i128).sum::<i128>() as i64;
    let checks = caught(|| {
        let mut f = vec![];
        for c in [-1i64, 0, 1] {
            let fits = |x: i128| x <= i64::MAX as i128 && x >= i64::MIN as i128;
            if !fits(total as i128 + c as i128) || !fits(max as i128 - total as i128 - c as i128) {
                continue; // the exact answer itself is not representable
            }
            let got = s.room_left(c);
            let want = (max as i128 - total as i128 - c as i128) as i64;
            if got != want {
                f.push(Finding::new("C20", "room_left_is_exact", disc.clone(), format!("room_left({}) = {} but max_cost {} minus recorded costs {} minus {} is {}, after {:?}", c, got, max, total, c, want, hist)));
                break;
            }
        }
        if s.max_cost() != max {
            f.push(Finding::new("C20", "max_cost_round_trips", disc.clone(), format!("get_max_cost() = {} expected {} after {:?}", s.max_cost(), max, hist)));
        }
        // fill_sample
        let mut inputs: Vec<Vec<(u64, i64)>> = vec![vec![], vec![(9_000_009, 9)]];
        if samples <= 64 {
            inputs.push((0..samples as u64).map(|i| (8_000_000 + i, 1)).collect());
            inputs.push((0..samples as u64 + 1).map(|i| (8_000_000 + i, 1)).collect());
        }
        for inp in inputs {
            let got = s.fill(inp.clone());
            let want_len = if inp.len() >= samples { inp.len() } else { std::cmp::min(samples, inp.len() + map.len()) };
            let prefix_ok = got.len() >= inp.len() && got[..inp.len()] == inp[..];
            let suffix: Vec<(u64, i64)> = if prefix_ok { got[inp.len()..].to_vec() } else { vec![] };
            let distinct: BTreeSet<u64> = suffix.iter().map(|x| x.0).collect();
            let genuine = suffix.iter().all(|(k, c)| map.get(k) == Some(c));
            if !prefix_ok || got.len() != want_len || distinct.len() != suffix.len() || !genuine {
                f.push(Finding::new("C20", "fill_sample", disc.clone(), format!("fill_sample({:?}) returned {:?} with {} tracked pairs {:?} and sample size {}, after {:?}", inp, got, map.len(), map, samples, hist)));
                break;
            }
        }
        f
    });
    match checks {
        Ok(f) => out.findings.extend(f),
        Err(m) if m.starts_with("[harness]") => return out,
        Err(m) => {
            out.findings.push(Finding::new("C05", "no_panic", format!("SampledLFU:{}", crate::panics::location_of(&m)), format!("a query panicked after {:?}: {}", hist, m)));
            // room_left is only asked where its exact answer is representable, and fill_sample has no outcome "panic"
            out.findings.push(Finding::new("C20", "queries_complete", disc.clone(), format!("room_left / get_max_cost / fill_sample panicked after {:?} (sample size {}): {}", hist, samples, m)));
            return out;
        }
    }
    out.nontrivial = !map.is_empty();
    // state key: reference contents + max + the real running total (so drift keeps states apart)
    let mut key = vec![];
    let keyed: Vec<u64> = [10u64, 11].iter().map(|k| s.hk(*k)).collect();
    for (k, c) in &map {
        // keys hashed through RandomState differ per build: use their slot id
        let slot = keyed.iter().position(|h| h == k).map(|p| 1_000 + p as u64).unwrap_or(*k);
        key.extend_from_slice(&slot.to_le_bytes());
        key.extend_from_slice(&c.to_le_bytes());
    }
    key.extend_from_slice(&max.to_le_bytes());
    // (only where max - total is representable at all)
    let drift = if (max as i128 - total as i128) <= i64::MAX as i128 && (max as i128 - total as i128) >= i64::MIN as i128 { caught(|| s.room_left(0)).unwrap_or(i64::MIN) } else { 0 };
    key.extend_from_slice(&drift.to_le_bytes());
    out.key = Some(key);
    out
}

fn sl_ops(cfg: &SlCfg) -> Vec<SlOp> {
    let mut v = vec![];
    let hashes: Vec<u64> = if cfg.hashes.is_empty() { vec![0u64, 1, u64::MAX] } else { cfg.hashes.clone() };
    for h in hashes {
        for c in &cfg.costs {
            v.push(SlOp::Inc(h, *c));
            v.push(SlOp::Upd(h, *c));
        }
        v.push(SlOp::Rem(h));
    }
    for k in [10u64, 11] {
        v.push(SlOp::IncKey(k, cfg.costs[cfg.costs.len() - 1]));
        v.push(SlOp::UpdKey(k, cfg.costs[0]));
        v.push(SlOp::RemKey(k));
    }
    v.push(SlOp::Clear);
    v.push(SlOp::MaxCost(0));
    v.push(SlOp::MaxCost(10));
    v
}

pub fn run_sampled(prop: &'static str, tier: Tier) -> EngineReport {
    let mut rep = EngineReport { name: "sampledlfu-explicit-state".into(), exhaustive: true, ..Default::default() };
    let big = tier == Tier::Thorough;
    let mut menu: Vec<(SlCfg, usize)> = vec![];
    let costs_small = vec![-3i64, 1, 5];
    let costs_wide = vec![-3i64, 0, 1, 5, 1 << 40];
    for ctor in 0..7u8 {
        let samples = [2usize, 0, 1, 3, 2, 1, 2][ctor as usize];
        menu.push((SlCfg { ctor, max_cost: 100, samples, costs: if big && ctor % 3 == 0 { costs_wide.clone() } else { costs_small.clone() }, hasher: if ctor % 2 == 0 { HKind::SipA } else { HKind::Zero }, hashes: vec![] }, if big { 60 } else { 12 }));
    }
    // explicit sample sizes above the default as well
    for (ctor, samples) in [(1u8, 7usize), (3, 6), (5, 8), (6, 9), (1, usize::MAX), (6, usize::MAX / 2)] {
        menu.push((SlCfg { ctor, max_cost: 10, samples, costs: vec![-3, 5], hasher: HKind::Identity, hashes: vec![] }, if big { 60 } else { 10 }));
    }
    // costs next to the ends of the i64 range whose true totals still fit: a replacement must not add before it subtracts
    // (alphabets in which every running total and every difference of two costs is representable: beyond that the
    // exact answers themselves are not, and nothing is judged)
    menu.push((SlCfg { ctor: 0, max_cost: i64::MAX, samples: 2, costs: vec![i64::MAX - 1, 7], hasher: HKind::SipA, hashes: vec![0, 1] }, if big { 60 } else { 8 }));
    menu.push((SlCfg { ctor: 2, max_cost: -3, samples: 2, costs: vec![i64::MIN + 9, -7], hasher: HKind::Zero, hashes: vec![0, 1] }, if big { 60 } else { 8 }));
    // hashed keys that agree in their low bits (any table that buckets by a few low bits sees them collide)
    menu.push((SlCfg { ctor: 4, max_cost: 50, samples: 3, costs: vec![2, 9], hasher: HKind::Identity, hashes: vec![7, 7 + 256, 7 + 65536, 7 + (1 << 32)] }, if big { 60 } else { 7 }));
    if big {
        // wider alphabets: five hashed keys (ends and middle of the u64 range), more cost values
        menu.push((SlCfg { ctor: 3, max_cost: 100, samples: 4, costs: vec![-3, 1, 5], hasher: HKind::Fnv, hashes: vec![0, 1, 2, 1 << 32, u64::MAX] }, 60));
        menu.push((SlCfg { ctor: 6, max_cost: 7, samples: 3, costs: vec![-7, 0, 2, 7], hasher: HKind::Zero, hashes: vec![0, 3, 1 << 63, u64::MAX] }, 60));
        menu.push((SlCfg { ctor: 1, max_cost: 0, samples: 6, costs: vec![i64::MIN / 4, -1, 1, i64::MAX / 4], hasher: HKind::SipA, hashes: vec![5, 6, 7] }, 60));
    }
    if prop == "C05" {
        menu.truncate(3);
    }
    let mut details = vec![];
    for (cfg, depth) in menu {
        let ops = sl_ops(&cfg);
        let c2 = cfg.clone();
        let out = bfs_la(&ops, if big { 1_000_000 } else { 30_000 }, depth, if big { 6 } else { 4 }, &move |h: &[SlOp]| sl_eval(&c2, h));
        rep.states += out.states;
        rep.transitions += out.evals;
        rep.evaluations += out.evals;
        rep.distinct_nontrivial += out.nontrivial.min(out.states);
        if !out.closed {
            rep.exhaustive = false;
        }
        details.push(json!({"config": cfg, "ops": ops.len(), "states": out.states, "executions": out.evals, "depth": out.max_depth, "closed": out.closed, "capped": out.capped,
            "lookahead_executions_on_merged_histories": out.lookahead}));
        for s in out.sample.iter().take(1) {
            rep.samples.push(json!({"engine": "sampledlfu", "config": cfg, "history": format!("{:?}", s)}));
        }
        for (f, h) in out.findings {
            if f.prop == prop {
                rep.violations.push(Extra { finding: f, case: json!({"engine": "sampledlfu", "cfg": cfg, "history": h}), count: 1 });
            }
        }
    }
    // trackers with many keys: repeated fill_sample calls (any internal cursor has to wrap correctly), every number
    // of tracked keys 0..=40, every sample size of the list, inputs of length 0 and 1
    if prop == "C20" {
        let mut runs = 0u64;
        for samples in [1usize, 2, 5, 7, 16] {
            for n in 0..=40u64 {
                let r = caught(|| {
                    let mut s: SampledLFU<u64> = SampledLFU::with_samples(1_000_000, samples);
                    for k in 0..n {
                        s.increment_hashed_key(1000 + k * 7919, (k as i64 % 5) + 1);
                    }
                    let mut bad = None;
                    let mut first_cost: i64 = 1;
                    for call in 0..(3 * n as usize + 8) {
                        if call == 2 && n > 0 {
                            // a cost changed in place: whatever fill_sample remembers of earlier calls is stale now
                            if !s.update_hashed_key(1000, 4242) {
                                bad = Some(format!("update of tracked key 1000 returned false on a tracker with {} keys", n));
                                break;
                            }
                            first_cost = 4242;
                        }
                        let inp: Vec<(u64, i64)> = if call % 3 == 2 { vec![(5, 5)] } else { vec![] };
                        let got = s.fill_sample(inp.clone());
                        let want_len = if inp.len() >= samples { inp.len() } else { samples.min(inp.len() + n as usize) };
                        let genuine = got[inp.len().min(got.len())..].iter().all(|(k, c)| *k >= 1000 && (*k - 1000) % 7919 == 0 && (*k - 1000) / 7919 < n && *c == if *k == 1000 { first_cost } else { (((*k - 1000) / 7919) as i64 % 5) + 1 });
                        let distinct: BTreeSet<u64> = got.iter().map(|x| x.0).collect();
                        if got.len() != want_len || !genuine || distinct.len() != got.len() || got[..inp.len().min(got.len())] != inp[..] {
                            bad = Some(format!("call #{} of fill_sample({:?}) on a tracker with {} keys and sample size {} returned {} pairs {:?}, expected {} genuine distinct pairs", call, inp, n, samples, got.len(), got, want_len));
                            break;
                        }
                    }
                    bad
                });
                runs += 1;
                if let Ok(Some(b)) = r {
                    rep.violations.push(Extra { finding: Finding::new("C20", "fill_sample", format!("large/samples={}", samples), b), case: json!({"engine": "sampledlfu-large", "tracked": n, "samples": samples}), count: 1 });
                }
            }
        }
        rep.evaluations += runs;
        rep.transitions += runs;
        details.push(json!({"pass": "repeated fill_sample on trackers with 0..=40 keys", "sample_sizes": [1, 2, 5, 7, 16], "executions": runs}));
    }
    rep.capped = if rep.exhaustive { None } else { Some("state or depth cap hit in some configuration (see detail)".into()) };
    rep.detail = json!(details);
    rep
}

pub fn replay_sampled(case: &Value) -> Vec<Finding> {
    let cfg: SlCfg = serde_json::from_value(case["cfg"].clone()).unwrap();
    let hist: Vec<SlOp> = serde_json::from_value(case["history"].clone()).unwrap();
    let mut all = vec![];
    for n in 0..=hist.len() {
        all.extend(sl_eval(&cfg, &hist[..n]).findings);
    }
    all
}
