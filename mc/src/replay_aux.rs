//! Replay of cases produced by the auxiliary engines.
use crate::oracle::Finding;
use serde_json::Value;

pub fn replay(prop: &'static str, engine: &str, case: &Value, path: &str) -> i32 {
    let found: Vec<Finding> = match engine {
        "tinylfu" => crate::lfu::replay_tinylfu(prop, case),
        "sampledlfu" => crate::lfu::replay_sampled(case),
        "grid" => crate::grid::replay_point(case["point"].as_str().unwrap_or("")),
        "faults" | "faults-convert" => crate::faults::replay_case(case)
            .into_iter()
            .map(|mut f| {
                f.prop = prop; // the same hazards are reported under C18 and, from the first pass, under C03
                f
            })
            .collect(),
        "probes" => crate::probes::replay_case(case),
        "conversions" => crate::grid::conversion_determinism(crate::plan::Tier::Thorough).violations.into_iter().map(|e| e.finding).collect(),
        "churn" => crate::grid::churn(crate::plan::Tier::Quick).violations.into_iter().map(|e| e.finding).collect(),
        "capacity-sweep" => crate::sweeps::capacity_sweep(crate::plan::Tier::Thorough).violations.into_iter().map(|e| e.finding).collect(),
        "quota-sweep" => crate::sweeps::quota_sweep(crate::plan::Tier::Thorough).violations.into_iter().map(|e| e.finding).collect(),
        "callback-unwind" => crate::faults::run_callback_consistency(crate::plan::Tier::Quick).violations.into_iter().map(|e| e.finding).collect(),
        "bounds-after-panic" => crate::faults::run_bounds_after_panic(crate::plan::Tier::Quick).violations.into_iter().map(|e| e.finding).collect(),
        "value-types" => crate::zst::run(prop, crate::plan::Tier::Quick).violations.into_iter().map(|e| e.finding).collect(),
        "sampledlfu-large" => crate::lfu::run_sampled("C20", crate::plan::Tier::Quick).violations.into_iter().map(|e| e.finding).collect(),
        "putresult" => crate::grid::put_result_structural().violations.into_iter().map(|e| e.finding).collect(),
        other => {
            eprintln!("no replay support for engine {:?}", other);
            return 2;
        }
    };
    println!("case: {}", case);
    let mine: Vec<&Finding> = found.iter().filter(|f| f.prop == prop).collect();
    if mine.is_empty() {
        println!("{}: property holds on this replay", prop);
        0
    } else {
        for f in mine {
            println!("VIOLATION property={} replay={}", prop, path);
            println!("  check={} [{}]: {}", f.check, f.disc, f.detail);
        }
        1
    }
}
