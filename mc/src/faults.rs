//! E3 / C18: fault-point enumeration. For every reachable state of a small closure, every
//! operation, and every call the operation makes into user code (the i-th Hash / Eq / Clone / Drop
//! of a key or value, BuildHasher / Hasher call, eviction callback, KeyHasher call), inject a
//! panic at exactly that call; then audit for dangling nodes, run every single follow-up operation
//! (fresh replay per follow-up) and drop the cache. Deviation bound: 1 injected fault per
//! execution (thorough: a 2nd one inside the follow-up).
//!
//! Hazards (violations): a key/value dropped twice or used after its drop, a double free or a
//! free with the wrong size, a node that is reachable but not a live block, a dead object handed
//! to the caller. Allowed: panics, wrong answers, structural inconsistency, leaks (counted).
use crate::check::{EngineReport, Extra};
use crate::driver::Wants;
use crate::engine::{explore, Limits};
use crate::hashers::{HKind, KHKind};
use crate::ops::*;
use crate::oracle::Finding;
use crate::plan::Tier;
use crate::subjects::*;
use crate::track::fault::{self, FK, NKINDS};
use crate::track::{self, TK, TV};
use crate::{alloc, panics};
use rayon::prelude::*;
use serde::{Deserialize, Serialize};
use serde_json::{json, Value};
use std::collections::{BTreeMap, BTreeSet};
use std::panic::{catch_unwind, AssertUnwindSafe};

#[derive(Clone, Copy, Debug, PartialEq, Eq, Serialize, Deserialize, PartialOrd, Ord)]
pub enum FOp {
    Op(Op),
    /// clone the cache, then drop the clone
    CloneDrop,
    /// drop the cache (the fault is injected into the drop itself)
    DropCache,
}

#[derive(Clone, Debug, Default)]
pub struct FaultRes {
    pub counts: [u32; NKINDS],
    pub fired: bool,
    pub op_panicked: bool,
    pub follow_panicked: bool,
    pub drop_panicked: bool,
    pub hazards: Vec<String>,
    pub inconsistent: bool,
    pub leaked_blocks: usize,
    pub follow_counts: [u32; NKINDS],
    /// (len(), cap(), per-list lengths) read right after the faulted operation returned or unwound
    pub sizes_after: Option<(u64, u64, Vec<usize>)>,
}

fn dead_in(r: &Ret) -> bool {
    match r {
        // iterator drains: a dead key (255) or a dead value ((255,255)) among the yielded items
        Ret::Ents(v) => v.iter().any(|(k, val)| *k == 255 || *val == (255, 255)),
        Ret::Many(v) => v.iter().any(dead_in),
        _ => crate::oracle::ret_has_dead(r),
    }
}

fn dangling_of<S: Subject>(c: &S, res: &mut FaultRes, when: &str) -> bool {
    match catch_unwind(AssertUnwindSafe(|| c.audit(false))) {
        Ok(l) => {
            let mut any = false;
            for (name, a) in l {
                for d in a.dangling {
                    let msg = alloc::untracked(|| format!("{}: {} ({})", name, d, when));
                    alloc::untracked(|| res.hazards.push(msg));
                    any = true;
                }
                if !a.structural.is_empty() {
                    res.inconsistent = true;
                }
                // an inconsistent structure is allowed after a panic (entries may leak, operations may fail), a
                // cyclic chain is not: the next walk - an iterator, purge, drop - never ends or frees a node twice
                for st in a.structural.iter().filter(|m| m.contains("appears twice") || m.contains("walk returned to")) {
                    let msg = alloc::untracked(|| format!("{}: the chain is cyclic ({}) ({})", name, st, when));
                    alloc::untracked(|| res.hazards.push(msg));
                    any = true;
                }
            }
            any
        }
        Err(_) => {
            let m = panics::take_last();
            alloc::untracked(|| res.hazards.push(format!("hazard audit panicked: {}", m)));
            true
        }
    }
}

/// one execution: replay `hist` quietly, run `fop` with an optional injected fault, audit, run the
/// optional follow-up (with an optional 2nd fault), drop.
pub fn execute<S: Subject>(cfg: &Cfg, hist: &[Op], fop: FOp, inject: Option<(FK, u32)>, follow: Option<Op>, inject2: Option<(FK, u32)>, more: &[Op]) -> FaultRes {
    let mut res = FaultRes::default();
    let _ = take_cb_log();
    let _ = panics::take_last();
    alloc::begin();
    track::begin();
    {
        let built = catch_unwind(AssertUnwindSafe(|| {
            let mut c = S::build(cfg)?;
            let mut out = Vec::new();
            for h in hist {
                c.apply(*h, &mut out);
            }
            Ok::<S, String>(c)
        }));
        let mut c: Option<S> = match built {
            Ok(Ok(c)) => Some(c),
            _ => None,
        };
        if let Some(cache) = c.as_mut() {
            let mut out = Vec::new();
            fault::start(inject);
            let r = match fop {
                FOp::Op(op) => catch_unwind(AssertUnwindSafe(|| {
                    let r = cache.apply(op, &mut out);
                    dead_in(&r)
                })),
                FOp::CloneDrop => catch_unwind(AssertUnwindSafe(|| {
                    let k = cache.try_clone();
                    drop(k);
                    false
                })),
                FOp::DropCache => {
                    let taken = c.take().unwrap();
                    catch_unwind(AssertUnwindSafe(move || {
                        drop(taken);
                        false
                    }))
                }
            };
            let (counts, fired) = fault::stop();
            res.counts = counts;
            res.fired = inject.is_some() && fired;
            match r {
                Ok(true) => alloc::untracked(|| res.hazards.push(format!("{:?} handed a dead key/value to the caller", fop))),
                Ok(false) => {}
                Err(_) => res.op_panicked = true,
            }
            drop(out);
        }
        if let Some(cache) = c.as_mut() {
            let dangling = dangling_of(cache, &mut res, "after the faulted operation");
            if dangling {
                std::mem::forget(c.take());
            } else if !res.inconsistent {
                if let Ok(s) = catch_unwind(AssertUnwindSafe(|| cache.snapshot())) {
                    let lens: Vec<usize> = s.lists.iter().map(|l| l.len()).collect();
                    res.sizes_after = Some((s.reported[0], s.reported[1], alloc::untracked(|| lens.clone())));
                }
            }
        }
        if let (Some(cache), Some(f)) = (c.as_mut(), follow) {
            let mut out = Vec::new();
            fault::start(inject2);
            let r = catch_unwind(AssertUnwindSafe(|| {
                let r = cache.apply(f, &mut out);
                dead_in(&r)
            }));
            let (counts, _) = fault::stop();
            res.follow_counts = counts;
            match r {
                Ok(true) => alloc::untracked(|| res.hazards.push(format!("follow-up {:?} handed a dead key/value to the caller", f))),
                Ok(false) => {}
                Err(_) => res.follow_panicked = true,
            }
            drop(out);
            let dangling = dangling_of(cache, &mut res, "after the follow-up operation");
            if dangling {
                std::mem::forget(c.take());
            }
        }
        for (i, f) in more.iter().enumerate() {
            let cache = match c.as_mut() {
                Some(c) => c,
                None => break,
            };
            let mut out = Vec::new();
            let r = catch_unwind(AssertUnwindSafe(|| {
                let r = cache.apply(*f, &mut out);
                dead_in(&r)
            }));
            match r {
                Ok(true) => alloc::untracked(|| res.hazards.push(format!("follow-up #{} {:?} handed a dead key/value to the caller", i + 2, f))),
                Ok(false) => {}
                Err(_) => res.follow_panicked = true,
            }
            drop(out);
            let when = alloc::untracked(|| format!("after follow-up #{} ({:?})", i + 2, f));
            let dangling = dangling_of(cache, &mut res, &when);
            if dangling {
                std::mem::forget(c.take());
            }
        }
        if let Some(cache) = c.take() {
            if catch_unwind(AssertUnwindSafe(move || drop(cache))).is_err() {
                res.drop_panicked = true;
            }
        }
    }
    for e in track::take_errors() {
        res.hazards.push(e);
    }
    let rep = alloc::end();
    for e in rep.errors {
        res.hazards.push(e);
    }
    res.leaked_blocks = rep.leaked_blocks;
    res
}

pub trait FaultDriver: Sync + Send {
    fn exec(&self, hist: &[Op], fop: FOp, inject: Option<(FK, u32)>, follow: Option<Op>, inject2: Option<(FK, u32)>) -> FaultRes {
        self.exec_more(hist, fop, inject, follow, inject2, &[])
    }
    /// `more`: further follow-up operations after the first one (no faults injected into them)
    fn exec_more(&self, hist: &[Op], fop: FOp, inject: Option<(FK, u32)>, follow: Option<Op>, inject2: Option<(FK, u32)>, more: &[Op]) -> FaultRes;
}
struct FD<S> {
    cfg: Cfg,
    _p: std::marker::PhantomData<fn() -> S>,
}
impl<S: Subject> FaultDriver for FD<S> {
    fn exec_more(&self, hist: &[Op], fop: FOp, inject: Option<(FK, u32)>, follow: Option<Op>, inject2: Option<(FK, u32)>, more: &[Op]) -> FaultRes {
        execute::<S>(&self.cfg, hist, fop, inject, follow, inject2, more)
    }
}

pub fn fault_driver(cfg: &Cfg) -> Box<dyn FaultDriver> {
    let c = cfg.clone();
    match cfg.kind {
        Kind::Raw => Box::new(FD::<RawSubj<TK, TV>> { cfg: c, _p: Default::default() }),
        Kind::Slru => Box::new(FD::<SlruSubj<TK, TV>> { cfg: c, _p: Default::default() }),
        Kind::TwoQ => Box::new(FD::<TwoQSubj<TK, TV>> { cfg: c, _p: Default::default() }),
        Kind::Arc => Box::new(FD::<ArcSubj<TK, TV>> { cfg: c, _p: Default::default() }),
        Kind::Wtlfu => Box::new(FD::<WtlfuSubj<TK, TV>> { cfg: c, _p: Default::default() }),
    }
}

fn menu(tier: Tier) -> Vec<Cfg> {
    let mut v = vec![];
    let mk = |kind: Kind, caps: &[usize], keys: u8| {
        let mut c = Cfg::base(kind, caps, keys);
        c.key_ty = KeyTy::Tracked;
        c.hasher = HKind::SipA;
        c.lean_ops = true;
        c
    };
    let mut raw = mk(Kind::Raw, &[2], 3);
    raw.callback = 2;
    raw.resize = vec![0, 1, 3];
    raw.lean_ops = false;
    v.push(raw);
    v.push(mk(Kind::Slru, &[1, 1], 3));
    let mut q = mk(Kind::TwoQ, &[2], 4);
    q.ratios = (0.5, 0.5);
    v.push(q);
    v.push(mk(Kind::Arc, &[1], 3));
    let mut w = mk(Kind::Wtlfu, &[1, 1, 1], 4);
    w.kh = KHKind::Spread;
    v.push(w);
    if tier == Tier::Thorough {
        v.push(mk(Kind::Arc, &[2], 4));
        v.push(mk(Kind::Slru, &[2, 1], 4));
        let mut q = mk(Kind::TwoQ, &[3], 5);
        q.ratios = (0.34, 0.34);
        v.push(q);
        let mut raw = mk(Kind::Raw, &[3], 4);
        raw.callback = 2;
        raw.hasher = HKind::Zero;
        v.push(raw);
        let mut raw1 = mk(Kind::Raw, &[1], 2);
        raw1.callback = 2;
        raw1.resize = vec![0, 2];
        raw1.lean_ops = false;
        v.push(raw1);
    }
    v
}

fn fops(cfg: &Cfg) -> Vec<FOp> {
    let mut v: Vec<FOp> = mutators(cfg).into_iter().map(FOp::Op).collect();
    for k in 0..cfg.keys.min(2) {
        v.push(FOp::Op(Op::Peek(k)));
        v.push(FOp::Op(Op::Contains(k)));
        v.push(FOp::Op(Op::PeekMut(k)));
    }
    if matches!(cfg.kind, Kind::Raw | Kind::Slru | Kind::Wtlfu) {
        v.push(FOp::CloneDrop);
    }
    v.push(FOp::DropCache);
    v
}

#[derive(Default)]
struct Stat {
    executions: u64,
    points: u64,
    fired: u64,
    op_panics: u64,
    follow_panics: u64,
    drop_panics: u64,
    inconsistent: u64,
    leaks: u64,
    by_kind: BTreeMap<String, u64>,
    findings: Vec<(Finding, Value)>,
}

pub fn run(tier: Tier) -> EngineReport {
    run_mode(tier, false)
}

/// `light`: the first pass only (state x operation x fault point x single follow-up), used by C03, whose
/// statement ("no sequence of safe API calls ...") covers calls whose user code panics; hazards are memory-
/// safety failures under either property
pub fn run_mode(tier: Tier, light: bool) -> EngineReport {
    let mut rep = EngineReport { name: if light { "fault-point-enumeration (first pass)".into() } else { "fault-point-enumeration".into() }, exhaustive: true, ..Default::default() };
    let mut details = vec![];
    let props: BTreeSet<&'static str> = BTreeSet::new();
    for cfg in menu(tier) {
        // 1. the reachable states of the configuration (no faults)
        let d = crate::driver::make_driver(&cfg);
        let want = Wants::default();
        let lim = Limits { max_states: if tier == Tier::Quick { 400 } else { 3000 }, collect_histories: true, ..Default::default() };
        let ex = explore(d.as_ref(), &props, &want, &lim);
        let mut hists = ex.histories.clone();
        let cap_states = if tier == Tier::Quick { 120 } else { 1500 };
        let truncated = hists.len() > cap_states;
        if truncated {
            // keep a prefix of the BFS order (all states up to some depth) — reported as capped
            hists.truncate(cap_states);
            rep.exhaustive = false;
        }
        if !ex.closed {
            rep.exhaustive = false;
        }
        let fd = fault_driver(&cfg);
        let fo = fops(&cfg);
        // follow-ups: every mutator, and the read paths that hand entries out (a dropped value still linked
        // in the list is a hazard the moment an iterator or a peek returns it)
        let mut follows: Vec<Op> = mutators(&cfg);
        follows.extend(observers(&cfg).into_iter().filter(|o| matches!(o, Op::Iters | Op::PeekLru | Op::PeekMru | Op::GetMru | Op::SegPeeks | Op::Peek(_))));
        let second = tier == Tier::Thorough;
        let stats: Vec<Stat> = hists
            .par_iter()
            .map(|h| {
                let mut st = Stat::default();
                for fop in &fo {
                    let dry = fd.exec(h, *fop, None, None, None);
                    st.executions += 1;
                    for kind in fault::ALL {
                        let n = dry.counts[kind as usize];
                        for i in 0..n {
                            st.points += 1;
                            *st.by_kind.entry(format!("{:?}", kind)).or_insert(0) += 1;
                            let mut follow_list: Vec<Option<Op>> = vec![None];
                            if *fop != FOp::DropCache {
                                follow_list.extend(follows.iter().map(|f| Some(*f)));
                            }
                            for f in follow_list {
                                let mut injections2: Vec<Option<(FK, u32)>> = vec![None];
                                if second && f.is_some() {
                                    // second deviation: every fault point of the follow-up (counted on a dry follow-up)
                                    let dry2 = fd.exec(h, *fop, Some((kind, i)), f, None);
                                    st.executions += 1;
                                    for k2 in fault::ALL {
                                        for j in 0..dry2.follow_counts[k2 as usize].min(3) {
                                            injections2.push(Some((k2, j)));
                                        }
                                    }
                                }
                                for inj2 in injections2 {
                                    let r = fd.exec(h, *fop, Some((kind, i)), f, inj2);
                                    st.executions += 1;
                                    st.fired += r.fired as u64;
                                    st.op_panics += r.op_panicked as u64;
                                    st.follow_panics += r.follow_panicked as u64;
                                    st.drop_panics += r.drop_panicked as u64;
                                    st.inconsistent += r.inconsistent as u64;
                                    st.leaks += (r.leaked_blocks > 0) as u64;
                                    if !r.fired && f.is_none() && inj2.is_none() {
                                        st.findings.push((
                                            Finding::new("C18", "machinery.fault_did_not_fire", format!("{:?}", kind), format!("armed fault {:?}#{} did not fire on replay of {:?} / {:?}", kind, i, h, fop)),
                                            json!(null),
                                        ));
                                    }
                                    for hz in &r.hazards {
                                        let class = if hz.contains("double drop") {
                                            "double_drop"
                                        } else if hz.contains("double free") || hz.contains("free of block") {
                                            "double_free"
                                        } else if hz.contains("not a live") {
                                            "dangling_node"
                                        } else if hz.contains("chain is cyclic") {
                                            "cyclic_chain"
                                        } else {
                                            "use_of_dead_object"
                                        };
                                        st.findings.push((
                                            Finding::new(
                                                "C18",
                                                "no_hazard_after_user_panic",
                                                format!("{:?}/{}/{:?}", cfg.kind, class, kind),
                                                format!("{} — panic injected at {:?} call #{} during {:?} after {:?}{}", hz, kind, i, fop, h, f.map(|f| format!(", follow-up {:?}", f)).unwrap_or_default()),
                                            ),
                                            json!({"engine": "faults", "cfg": cfg, "history": h, "fop": fop, "inject": [kind, i], "follow": f, "inject2": inj2}),
                                        ));
                                    }
                                }
                            }
                        }
                    }
                }
                st
            })
            .collect();
        let mut tot = Stat::default();
        for s in stats {
            tot.executions += s.executions;
            tot.points += s.points;
            tot.fired += s.fired;
            tot.op_panics += s.op_panics;
            tot.follow_panics += s.follow_panics;
            tot.drop_panics += s.drop_panics;
            tot.inconsistent += s.inconsistent;
            tot.leaks += s.leaks;
            for (k, v) in s.by_kind {
                *tot.by_kind.entry(k).or_insert(0) += v;
            }
            for (f, c) in s.findings {
                if f.check.starts_with("machinery") {
                    if rep.machinery_errors.len() < 3 {
                        rep.machinery_errors.push(f.detail.clone());
                    }
                } else {
                    rep.violations.push(Extra { finding: f, case: c, count: 1 });
                }
            }
        }
        rep.states += hists.len() as u64;
        rep.transitions += tot.points;
        rep.evaluations += tot.executions;
        rep.distinct_nontrivial += tot.points;
        details.push(json!({
            "config": cfg.label(), "states": hists.len(), "states_in_closure": ex.states, "state_prefix_only": truncated, "operations_faulted": fo.len(),
            "follow_ups_per_point": follows.len() + 1, "fault_points": tot.points, "fault_points_by_kind": tot.by_kind, "executions": tot.executions,
            "faults_fired": tot.fired, "executions_where_the_faulted_op_unwound": tot.op_panics, "follow_up_panics_(allowed)": tot.follow_panics,
            "drop_panics_(allowed)": tot.drop_panics, "structurally_inconsistent_afterwards_(allowed)": tot.inconsistent, "executions_with_leaks_(allowed)": tot.leaks,
            "second_fault_in_follow_up": second,
        }));
        if let Some(h) = hists.last() {
            rep.samples.push(json!({"engine": "faults", "config": cfg.label(), "state_history": format!("{:?}", h), "example": "every op x every Hash/Eq/Clone/Drop/hasher/callback call index x every follow-up op"}));
        }
    }
    if !light {
        for (cfg, len, cap) in deep_menu(tier) {
            deep_pass(&cfg, len, cap, &mut rep, &mut details);
        }
        run_conversions(&mut rep, &mut details);
    }
    rep.capped = if rep.exhaustive { None } else { Some("state prefix cap hit in some configuration (see detail)".into()) };
    rep.detail = json!(details);
    rep
}


/// Deeper follow-up sequences: a hazard that needs the damaged structure to be used two or three more times
/// (a node left linked but un-indexed by the panic is later mistaken for the LRU entry, a stale neighbour
/// pointer is written through after the neighbour has gone). Every state of a tiny configuration, every
/// operation, every fault point, every sequence of the lean follow-up alphabet of the given length.
fn deep_pass(cfg: &Cfg, len: usize, max_states: usize, rep: &mut EngineReport, details: &mut Vec<Value>) {
    let props: BTreeSet<&'static str> = BTreeSet::new();
    let d = crate::driver::make_driver(cfg);
    let lim = Limits { max_states: 3000, collect_histories: true, ..Default::default() };
    let ex = explore(d.as_ref(), &props, &Wants::default(), &lim);
    let hists: Vec<Vec<Op>> = ex.histories.iter().take(max_states).cloned().collect();
    if hists.len() < ex.histories.len() || !ex.closed {
        rep.exhaustive = false;
    }
    let fd = fault_driver(cfg);
    let fo = fops(cfg);
    let lean: Vec<Op> = {
        let mut v: Vec<Op> = (0..cfg.keys).map(|k| Op::Put(k, 0)).collect();
        v.extend([Op::Get(0), Op::Get(1), Op::Remove(0), Op::Remove(1), Op::Purge, Op::Iters]);
        if cfg.kind == Kind::Raw {
            v.push(Op::RemoveLru);
        }
        v
    };
    let mut seqs: Vec<Vec<Op>> = vec![vec![]];
    for _ in 0..len {
        seqs = seqs.into_iter().flat_map(|s| lean.iter().map(move |o| { let mut t = s.clone(); t.push(*o); t })).collect();
    }
    let stats: Vec<Stat> = hists
        .par_iter()
        .map(|h| {
            let mut st = Stat::default();
            for fop in fo.iter().filter(|f| **f != FOp::DropCache) {
                let dry = fd.exec(h, *fop, None, None, None);
                st.executions += 1;
                for kind in fault::ALL {
                    for i in 0..dry.counts[kind as usize] {
                        st.points += 1;
                        for sq in &seqs {
                            let r = fd.exec_more(h, *fop, Some((kind, i)), Some(sq[0]), None, &sq[1..]);
                            st.executions += 1;
                            for hz in &r.hazards {
                                let class = if hz.contains("double drop") {
                                    "double_drop"
                                } else if hz.contains("double free") || hz.contains("free of block") {
                                    "double_free"
                                } else if hz.contains("not a live") {
                                    "dangling_node"
                                } else if hz.contains("chain is cyclic") {
                                    "cyclic_chain"
                                } else if hz.contains("freed block") {
                                    "write_after_free"
                                } else {
                                    "use_of_dead_object"
                                };
                                st.findings.push((
                                    Finding::new(
                                        "C18",
                                        "no_hazard_after_user_panic",
                                        format!("{:?}/{}/{:?}/later", cfg.kind, class, kind),
                                        format!("{} — panic injected at {:?} call #{} during {:?} after {:?}, follow-ups {:?}", hz, kind, i, fop, h, sq),
                                    ),
                                    json!({"engine": "faults", "cfg": cfg, "history": h, "fop": fop, "inject": [kind, i], "follow": sq[0], "inject2": null, "more": &sq[1..]}),
                                ));
                            }
                        }
                    }
                }
            }
            st
        })
        .collect();
    let (mut exec, mut points) = (0u64, 0u64);
    for s in stats {
        exec += s.executions;
        points += s.points;
        for (f, c) in s.findings {
            rep.violations.push(Extra { finding: f, case: c, count: 1 });
        }
    }
    rep.states += hists.len() as u64;
    rep.transitions += points;
    rep.evaluations += exec;
    details.push(json!({"config": cfg.label(), "pass": "deeper follow-up sequences", "states": hists.len(), "states_in_closure": ex.states, "operations_faulted": fo.len() - 1,
        "fault_points": points, "follow_up_sequence_length": len, "follow_up_alphabet": lean.len(), "sequences_per_point": seqs.len(), "executions": exec}));
}

fn deep_menu(tier: Tier) -> Vec<(Cfg, usize, usize)> {
    // (configuration, follow-up sequence length, state cap)
    let mk = |kind: Kind, caps: &[usize], keys: u8| {
        let mut c = Cfg::base(kind, caps, keys);
        c.key_ty = KeyTy::Tracked;
        c.hasher = HKind::SipA;
        c.lean_ops = true;
        c
    };
    let big = tier == Tier::Thorough;
    let mut raw1 = mk(Kind::Raw, &[1], 2);
    raw1.callback = 2;
    let raw2 = mk(Kind::Raw, &[2], 3);
    let mut q = mk(Kind::TwoQ, &[2], 3);
    q.ratios = (0.5, 0.5);
    let mut w = mk(Kind::Wtlfu, &[1, 1, 1], 3);
    w.kh = KHKind::Spread;
    let mut v = vec![
        (raw1, 3, 100),
        (raw2, if big { 3 } else { 2 }, if big { 100 } else { 30 }),
        (mk(Kind::Slru, &[1, 2], 4), 2, if big { 100 } else { 40 }),
        (q, 2, if big { 100 } else { 30 }),
        (mk(Kind::Arc, &[1], 3), 2, if big { 100 } else { 30 }),
        (w, 2, if big { 60 } else { 20 }),
    ];
    if big {
        v.push((mk(Kind::Slru, &[2, 2], 4), 2, 60));
        let mut q = mk(Kind::TwoQ, &[2], 3);
        q.ratios = (0.5, 0.5);
        v.push((q, 3, 40));
        v.push((mk(Kind::Arc, &[1], 3), 3, 40));
    }
    v
}


/// C15 under unwinding: the callback is "never invoked for entries that remain resident". If the callback
/// panics, the entry it was called with must already have left: every state of small callback configurations,
/// every operation, every callback invocation made to panic; afterwards each announced entry is looked up.
pub fn run_callback_consistency(tier: Tier) -> EngineReport {
    let mut rep = EngineReport { name: "callback-unwind consistency (every state x operation x callback call made to panic)".into(), exhaustive: true, ..Default::default() };
    let props: BTreeSet<&'static str> = BTreeSet::new();
    let mut details = vec![];
    let caps: &[(usize, u8)] = if tier == Tier::Thorough { &[(1, 2), (2, 3), (3, 4)] } else { &[(1, 2), (2, 3)] };
    for cbk in [2u8, 1u8] {
        for (cap, keys) in caps {
            let mut cfg = Cfg::base(Kind::Raw, &[*cap], *keys);
            cfg.key_ty = KeyTy::Tracked;
            cfg.callback = cbk;
            cfg.resize = vec![0, 1, *cap as u8 + 1];
            let d = crate::driver::make_driver(&cfg);
            let lim = Limits { max_states: 5000, collect_histories: true, ..Default::default() };
            let ex = explore(d.as_ref(), &props, &Wants::default(), &lim);
            if !ex.closed {
                rep.exhaustive = false;
            }
            let ops = mutators(&cfg);
            let results: Vec<(u64, u64, Vec<(Finding, Value)>)> = ex
                .histories
                .par_iter()
                .map(|h| {
                    let mut out = vec![];
                    let (mut execs, mut points) = (0u64, 0u64);
                    for op in &ops {
                        let n = callback_run(&cfg, h, *op, None).0;
                        execs += 1;
                        for i in 0..n {
                            points += 1;
                            execs += 1;
                            let (_, announced, still) = callback_run(&cfg, h, *op, Some(i));
                            for e in still {
                                out.push((
                                    Finding::new(
                                        "C15",
                                        "announced_entries_have_left",
                                        format!("Raw/{}", crate::oracle::op_name(op)),
                                        format!("the callback was invoked with {:?} (and unwound, call #{}) during {:?} after {:?}, but that entry is still resident with that value; announced in this operation: {:?}", e, i, op, h, announced),
                                    ),
                                    json!({"engine": "callback-unwind", "cfg": cfg, "history": h, "op": op, "call": i}),
                                ));
                            }
                        }
                    }
                    (execs, points, out)
                })
                .collect();
            let (mut execs, mut points) = (0u64, 0u64);
            for (e, p, fs) in results {
                execs += e;
                points += p;
                for (f, c) in fs {
                    rep.violations.push(Extra { finding: f, case: c, count: 1 });
                }
            }
            rep.states += ex.states as u64;
            rep.transitions += points;
            rep.evaluations += execs;
            rep.distinct_nontrivial += points;
            details.push(json!({"config": cfg.label(), "states": ex.states, "operations": ops.len(), "callback_invocations_made_to_panic": points, "executions": execs}));
        }
    }
    rep.detail = json!(details);
    rep
}

/// (number of callback invocations, entries announced, announced entries still resident with the announced value)
fn callback_run(cfg: &Cfg, hist: &[Op], op: Op, inject: Option<u32>) -> (u32, Vec<crate::ops::Ent>, Vec<crate::ops::Ent>) {
    let _ = take_cb_log();
    let _ = panics::take_last();
    track::begin();
    let mut announced = vec![];
    let mut still = vec![];
    let mut calls = 0;
    let built = catch_unwind(AssertUnwindSafe(|| {
        let mut c = RawSubj::<TK, TV>::build(cfg)?;
        let mut out = Vec::new();
        for h in hist {
            c.apply(*h, &mut out);
        }
        Ok::<_, String>(c)
    }));
    if let Ok(Ok(mut c)) = built {
        let _ = take_cb_log();
        let mut out = Vec::new();
        fault::start(inject.map(|i| (FK::Callback, i)));
        let r = catch_unwind(AssertUnwindSafe(|| {
            c.apply(op, &mut out);
        }));
        let (counts, fired) = fault::stop();
        calls = counts[FK::Callback as usize];
        announced = take_cb_log();
        if r.is_err() && fired {
            let _ = panics::take_last();
            for e in &announced {
                let mut o2 = Vec::new();
                if let Ok(Ret::V(Some(vv))) = catch_unwind(AssertUnwindSafe(|| c.apply(Op::Peek(e.0), &mut o2))) {
                    if vv == e.1 {
                        still.push(*e);
                    }
                }
            }
        }
        drop(out);
        let _ = catch_unwind(AssertUnwindSafe(move || drop(c)));
    }
    let _ = track::take_errors();
    let _ = take_cb_log();
    (calls, announced, still)
}


/// C01 under unwinding: the capacity bound is not suspended by a panic in user code. Every state of the small
/// configurations, every operation, every call into user code made to panic; right after the operation
/// unwound, len() <= cap() (read only when the lists are still well-formed).
pub fn run_bounds_after_panic(tier: Tier) -> EngineReport {
    let mut rep = EngineReport { name: "capacity bound after a panic in user code (state x operation x fault point)".into(), exhaustive: true, ..Default::default() };
    let props: BTreeSet<&'static str> = BTreeSet::new();
    let mut details = vec![];
    for cfg in menu(tier) {
        let d = crate::driver::make_driver(&cfg);
        let lim = Limits { max_states: if tier == Tier::Quick { 400 } else { 3000 }, collect_histories: true, ..Default::default() };
        let ex = explore(d.as_ref(), &props, &Wants::default(), &lim);
        let hists: Vec<Vec<Op>> = ex.histories.iter().take(if tier == Tier::Quick { 120 } else { 1500 }).cloned().collect();
        if hists.len() < ex.histories.len() || !ex.closed {
            rep.exhaustive = false;
        }
        let fd = fault_driver(&cfg);
        let fo = fops(&cfg);
        let results: Vec<(u64, u64, Vec<(Finding, Value)>)> = hists
            .par_iter()
            .map(|h| {
                let (mut execs, mut points) = (0u64, 0u64);
                let mut out = vec![];
                for fop in fo.iter().filter(|f| **f != FOp::DropCache) {
                    let dry = fd.exec(h, *fop, None, None, None);
                    execs += 1;
                    for kind in fault::ALL {
                        for i in 0..dry.counts[kind as usize] {
                            points += 1;
                            execs += 1;
                            let r = fd.exec(h, *fop, Some((kind, i)), None, None);
                            if let Some((len, cap, _)) = &r.sizes_after {
                                if len > cap {
                                    out.push((
                                        Finding::new(
                                            "C01",
                                            "bound_survives_a_panic_in_user_code",
                                            format!("{:?}/{:?}", cfg.kind, kind),
                                            format!("len() == {} exceeds cap() == {} after {:?} unwound from a panic injected at {:?} call #{} (history {:?})", len, cap, fop, kind, i, h),
                                        ),
                                        json!({"engine": "bounds-after-panic", "cfg": cfg, "history": h, "fop": fop, "inject": [kind, i]}),
                                    ));
                                }
                            }
                        }
                    }
                }
                (execs, points, out)
            })
            .collect();
        let (mut execs, mut points) = (0u64, 0u64);
        for (e, p, fs) in results {
            execs += e;
            points += p;
            for (f, c) in fs {
                rep.violations.push(Extra { finding: f, case: c, count: 1 });
            }
        }
        rep.states += hists.len() as u64;
        rep.transitions += points;
        rep.evaluations += execs;
        rep.distinct_nontrivial += points;
        details.push(json!({"config": cfg.label(), "states": hists.len(), "operations": fo.len() - 1, "fault_points": points, "executions": execs}));
    }
    rep.capped = if rep.exhaustive { None } else { Some("state prefix cap hit in some configuration (see detail)".into()) };
    rep.detail = json!(details);
    rep
}

/// Conversions into a RawLRU (`From<[(K,V);N]>`, `From<Vec>`, `From<&[..]>`, `From<&mut [..]>`, `From<VecDeque>`,
/// `From<LinkedList>`, `collect()`): a panic at every call into Hash/Eq/Clone/Drop of the items, then the
/// (possibly half-built) result is dropped.
pub fn execute_convert(which: u8, n: u8, inject: Option<(FK, u32)>) -> FaultRes {
    use caches::RawLRU;
    use crate::track::{KeyT, ValT};
    let mut res = FaultRes::default();
    let _ = panics::take_last();
    alloc::begin();
    track::begin();
    {
        let items: Vec<(TK, TV)> = (0..n).map(|i| (TK::mk(i % 2 + (i / 2)), TV::mk(i, 0))).collect();
        fault::start(inject);
        let r = catch_unwind(AssertUnwindSafe(move || {
            let c: RawLRU<TK, TV> = match which {
                0 => RawLRU::from(items),
                1 => RawLRU::from(&items[..]),
                2 => {
                    let mut it = items;
                    RawLRU::from(&mut it[..])
                }
                3 => RawLRU::from(items.into_iter().collect::<std::collections::VecDeque<_>>()),
                4 => RawLRU::from(items.into_iter().collect::<std::collections::LinkedList<_>>()),
                5 => items.into_iter().collect::<RawLRU<TK, TV>>(),
                _ => {
                    let mut it = items.into_iter();
                    match (it.next(), it.next(), it.next()) {
                        (Some(a), Some(b), Some(c)) => RawLRU::from([a, b, c]),
                        (Some(a), Some(b), None) => RawLRU::from([a, b]),
                        (Some(a), None, None) => RawLRU::from([a]),
                        _ => RawLRU::from([(TK::mk(0), TV::mk(0, 0)); 0]),
                    }
                }
            };
            // read everything back, then drop
            let dead = c.iter().any(|(k, v)| k.id() == 255 || v.kv() == (255, 255));
            drop(c);
            dead
        }));
        let (counts, fired) = fault::stop();
        res.counts = counts;
        res.fired = inject.is_some() && fired;
        match r {
            Ok(true) => res.hazards.push(format!("conversion #{} produced a cache holding a dead key/value", which)),
            Ok(false) => {}
            Err(_) => res.op_panicked = true,
        }
    }
    for e in track::take_errors() {
        res.hazards.push(e);
    }
    let rep = alloc::end();
    for e in rep.errors {
        res.hazards.push(e);
    }
    res.leaked_blocks = rep.leaked_blocks;
    res
}

const CONVERSIONS: [&str; 7] = ["From<Vec>", "From<&[..]>", "From<&mut [..]>", "From<VecDeque>", "From<LinkedList>", "collect()", "From<[(K,V); N]>"];

fn run_conversions(rep: &mut EngineReport, details: &mut Vec<Value>) {
    let mut points = 0u64;
    let mut execs = 0u64;
    for which in 0..CONVERSIONS.len() as u8 {
        for n in [0u8, 1, 3, 4] {
            // items: 4 items with one duplicate key, so the update path of put runs as well
            let dry = execute_convert(which, n, None);
            execs += 1;
            for kind in fault::ALL {
                for i in 0..dry.counts[kind as usize] {
                    points += 1;
                    let r = execute_convert(which, n, Some((kind, i)));
                    execs += 1;
                    for hz in &r.hazards {
                        let class = if hz.contains("double drop") { "double_drop" } else if hz.contains("double free") || hz.contains("free of block") { "double_free" } else { "use_of_dead_object" };
                        rep.violations.push(Extra {
                            finding: Finding::new("C18", "no_hazard_after_user_panic", format!("conversion/{}/{}/{:?}", CONVERSIONS[which as usize], class, kind), format!("{} — panic injected at {:?} call #{} while building a RawLRU with {} from {} items", hz, kind, i, CONVERSIONS[which as usize], n)),
                            case: json!({"engine": "faults-convert", "which": which, "n": n, "inject": [kind, i]}),
                            count: 1,
                        });
                    }
                }
            }
        }
    }
    rep.transitions += points;
    rep.evaluations += execs;
    rep.distinct_nontrivial += points;
    details.push(json!({"config": "conversions into RawLRU (DefaultHashBuilder)", "conversions": CONVERSIONS, "item_counts": [0, 1, 3, 4], "fault_points": points, "executions": execs}));
}

pub fn replay_case(case: &Value) -> Vec<Finding> {
    if case["engine"] == "faults-convert" {
        let which = case["which"].as_u64().unwrap_or(0) as u8;
        let n = case["n"].as_u64().unwrap_or(0) as u8;
        let inject: Option<(FK, u32)> = serde_json::from_value(case["inject"].clone()).ok();
        let r = execute_convert(which, n, inject);
        return r.hazards.iter().map(|h| Finding::new("C18", "no_hazard_after_user_panic", "conversion", h.clone())).collect();
    }
    let cfg: Cfg = serde_json::from_value(case["cfg"].clone()).unwrap();
    let hist: Vec<Op> = serde_json::from_value(case["history"].clone()).unwrap();
    let fop: FOp = serde_json::from_value(case["fop"].clone()).unwrap();
    let inject: Option<(FK, u32)> = serde_json::from_value(case["inject"].clone()).ok();
    let follow: Option<Op> = serde_json::from_value(case["follow"].clone()).unwrap_or(None);
    let inject2: Option<(FK, u32)> = serde_json::from_value(case["inject2"].clone()).unwrap_or(None);
    let more: Vec<Op> = serde_json::from_value(case["more"].clone()).unwrap_or_default();
    let fd = fault_driver(&cfg);
    let r = fd.exec_more(&hist, fop, inject, follow, inject2, &more);
    println!("fault fired: {}, faulted op unwound: {}, follow-up panicked: {}, drop panicked: {}, leaked blocks: {}", r.fired, r.op_panicked, r.follow_panicked, r.drop_panicked, r.leaked_blocks);
    r.hazards.iter().map(|h| Finding::new("C18", "no_hazard_after_user_panic", format!("{:?}", cfg.kind), h.clone())).collect()
}
