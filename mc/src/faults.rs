//! C18 (placeholder until the fault engine lands)
use crate::check::EngineReport;
use crate::plan::Tier;
pub fn run(_tier: Tier) -> EngineReport {
    EngineReport { name: "fault-enumeration".into(), ..Default::default() }
}
