//! Miri leg of C03 (thorough tier). The native explorer computes the tiny closures and writes every
//! transition as (configuration, BFS-shortest history, operation); the same binary, interpreted by
//! Miri (`cargo +nightly miri run -- miri-replay <file>`), re-executes each of them on a fresh cache,
//! reads every list through the public iterators and drops the cache. Miri aborts with a report on
//! any undefined behaviour (uninitialised read, use after free, out-of-bounds, invalid aliasing
//! under Tree Borrows); that report is the verdict. No oracle runs here: the enumeration decides
//! which executions happen, Miri judges each one.
use crate::driver::{make_driver, Wants};
use crate::engine::{explore, Limits};
use crate::hashers::{HKind, KHKind};
use crate::ops::*;
use serde::{Deserialize, Serialize};
use std::collections::BTreeSet;

#[derive(Serialize, Deserialize)]
struct Item {
    cfg: usize,
    hist: Vec<Op>,
    op: Op,
}

#[derive(Serialize, Deserialize)]
struct Dump {
    cfgs: Vec<Cfg>,
    items: Vec<Item>,
}

fn configs() -> Vec<Cfg> {
    let mut v = vec![];
    let mut raw = Cfg::base(Kind::Raw, &[2], 3);
    raw.resize = vec![0, 1, 3];
    raw.with_clone = true;
    raw.versions = 1;
    v.push(raw.clone());
    let mut rawt = raw.clone();
    rawt.key_ty = KeyTy::Tracked;
    rawt.callback = 2;
    rawt.lean_ops = true;
    rawt.hasher = HKind::Zero;
    v.push(rawt);
    let mut s = Cfg::base(Kind::Slru, &[1, 1], 3);
    s.with_clone = true;
    v.push(s);
    let mut q = Cfg::base(Kind::TwoQ, &[2], 4);
    q.lean_ops = true;
    v.push(q);
    let mut q1 = Cfg::base(Kind::TwoQ, &[1], 3);
    q1.ratios = (1.0, 1.0);
    q1.key_ty = KeyTy::Tracked;
    v.push(q1);
    let mut a = Cfg::base(Kind::Arc, &[1], 3);
    a.lean_ops = true;
    v.push(a.clone());
    let mut a2 = Cfg::base(Kind::Arc, &[2], 4);
    a2.lean_ops = true;
    v.push(a2);
    let mut w = Cfg::base(Kind::Wtlfu, &[1, 1, 1], 4);
    w.kh = KHKind::Spread;
    w.lean_ops = true;
    w.builder_path = 1;
    v.push(w);
    v
}

pub fn dump(path: &str) -> i32 {
    let props: BTreeSet<&'static str> = BTreeSet::new();
    let mut d = Dump { cfgs: vec![], items: vec![] };
    for (ci, cfg) in configs().into_iter().enumerate() {
        let drv = make_driver(&cfg);
        let lim = Limits { max_states: 5000, collect_histories: true, ..Default::default() };
        let ex = explore(drv.as_ref(), &props, &Wants::default(), &lim);
        let muts = mutators(&cfg);
        // W-TinyLFU and ARC(2): cap the number of replays (shortest histories first = BFS order)
        let budget = 1500usize;
        let mut n = 0;
        for h in &ex.histories {
            for op in &muts {
                if n >= budget {
                    break;
                }
                d.items.push(Item { cfg: ci, hist: h.clone(), op: *op });
                n += 1;
            }
        }
        eprintln!("[miri-dump] {}: {} states, {} transitions written", cfg.label(), ex.states, n);
        d.cfgs.push(cfg);
    }
    // one file per shard (parsing JSON is slow under Miri): <path>.<i> holds the items i, i+n, i+2n, ...
    let shards: usize = std::env::var("MC_MIRI_SHARDS").ok().and_then(|x| x.parse().ok()).unwrap_or(1);
    for sh in 0..shards {
        let part = Dump { cfgs: d.cfgs.clone(), items: d.items.iter().enumerate().filter(|(i, _)| i % shards == sh).map(|(_, it)| Item { cfg: it.cfg, hist: it.hist.clone(), op: it.op }).collect() };
        if let Err(e) = std::fs::write(format!("{}.{}", path, sh), serde_json::to_string(&part).unwrap()) {
            eprintln!("cannot write {}.{}: {}", path, sh, e);
            return 2;
        }
    }
    0
}

pub fn replay(path: &str, _shard: usize, _shards: usize) -> i32 {
    let text = match std::fs::read_to_string(path) {
        Ok(t) => t,
        Err(e) => {
            eprintln!("cannot read {}: {}", path, e);
            return 2;
        }
    };
    let d: Dump = serde_json::from_str(&text).unwrap();
    let want = Wants::default();
    let drivers: Vec<_> = d.cfgs.iter().map(make_driver).collect();
    let mut n = 0u64;
    for (i, it) in d.items.iter().enumerate() {
        let _ = i;
        // one execution: fresh cache, replay, the operation, audit + snapshot through the iterators, drop
        let t = drivers[it.cfg].trans(&it.hist, it.op, &want);
        if t.exec.replay_error.is_some() {
            eprintln!("replay error: {:?}", t.exec.replay_error);
            return 2;
        }
        n += 1;
    }
    println!("miri-replay: {} executions over {} configurations interpreted without undefined behaviour", n, d.cfgs.len());
    0
}

/// summary written by ./check (thorough C03) after the sharded Miri run, folded into the evidence
pub fn report_from_env() -> Option<crate::check::EngineReport> {
    let p = std::env::var("MC_MIRI_SUMMARY").ok()?;
    let v: serde_json::Value = serde_json::from_str(&std::fs::read_to_string(p).ok()?).ok()?;
    let n = v["executions"].as_u64().unwrap_or(0);
    let mut rep = crate::check::EngineReport { name: "miri-replay of the tiny closures (Tree Borrows)".into(), exhaustive: false, ..Default::default() };
    rep.evaluations = n;
    rep.transitions = n;
    rep.distinct_nontrivial = n;
    rep.capped = Some("at most 1500 transitions (BFS order) per configuration".into());
    rep.detail = v.clone();
    rep.samples = vec![serde_json::json!({"engine": "miri", "note": "every transition = fresh cache + BFS-shortest history + one operation, interpreted by Miri"})];
    if v["undefined_behaviour"].as_bool().unwrap_or(false) {
        rep.violations.push(crate::check::Extra {
            finding: crate::oracle::Finding::new("C03", "miri_reports_no_undefined_behaviour", "miri", format!("Miri reported undefined behaviour while replaying the tiny closures; see {}", v["log"].as_str().unwrap_or("?"))),
            case: serde_json::json!({"engine": "miri", "log": v["log"]}),
            count: 1,
        });
    }
    Some(rep)
}
