//! Key/value types used by the explorations.
//!
//! * `u64` / `PV`: plain, fast; used for the policy oracles.
//! * `TK` / `TV`: drop-tracked (DESIGN §2.5-3). Every instance has a serial number in a
//!   thread-local registry (unused -> live -> dropped); Drop asserts live -> dropped exactly
//!   once, Hash/Eq/Clone assert the receiver is live. Both own heap memory, so a double drop
//!   or a read of a freed key is also a heap error for the registry allocator / ASan / Miri.
//!   They are also the fault-injection points of C18 (`fault::tick`).

use std::borrow::Borrow;
use std::cell::{Cell, RefCell};
use std::hash::{Hash, Hasher};
use std::mem::ManuallyDrop;

// ---------------------------------------------------------------- serial registry

#[derive(Default)]
struct SerialReg {
    state: Vec<u8>, // 0 unused, 1 live, 2 dropped
    errors: Vec<String>,
}

thread_local! {
    static REG: RefCell<SerialReg> = RefCell::new(SerialReg::default());
}

fn reg<R>(f: impl FnOnce(&mut SerialReg) -> R) -> R {
    crate::alloc::untracked(|| REG.with(|r| f(&mut r.borrow_mut())))
}

pub fn begin() {
    reg(|r| {
        r.state.clear();
        r.state.push(2); // serial 0 is never valid
        r.errors.clear();
    })
}

fn new_serial() -> u32 {
    reg(|r| {
        r.state.push(1);
        (r.state.len() - 1) as u32
    })
}

/// 1 = live, 2 = dropped, 0 = never issued / garbage
fn serial_state(s: u32) -> u8 {
    reg(|r| r.state.get(s as usize).copied().unwrap_or(0))
}

fn record(msg: String) {
    reg(|r| {
        if r.errors.len() < 16 {
            r.errors.push(msg)
        }
    })
}

/// Payload of the panic raised when user code is handed a dead object: the error is already
/// recorded; unwinding gets the execution out of library loops that would otherwise spin on
/// the corrupted structure (e.g. `while len > cap { remove_lru() }` with an unremovable entry).
pub struct HazardAbort;

pub(crate) fn spin_abort() {
    abort_execution()
}

fn abort_execution() {
    if !std::thread::panicking() {
        std::panic::panic_any(HazardAbort);
    }
}

fn check_live(what: &str, s: u32) -> bool {
    match serial_state(s) {
        1 => true,
        2 => {
            record(format!("{} of an already dropped object (serial {})", what, s));
            abort_execution();
            false
        }
        _ => {
            record(format!("{} of garbage memory (serial field {:#x})", what, s));
            abort_execution();
            false
        }
    }
}

fn mark_dropped(what: &str, s: u32) -> bool {
    reg(|r| match r.state.get(s as usize).copied() {
        Some(1) => {
            r.state[s as usize] = 2;
            true
        }
        Some(2) => {
            if r.errors.len() < 16 {
                r.errors.push(format!("double drop of {} (serial {})", what, s));
            }
            false
        }
        _ => {
            if r.errors.len() < 16 {
                r.errors.push(format!("drop of garbage {} (serial field {:#x})", what, s));
            }
            false
        }
    })
}

/// an error observed by harness code that was handed an object by the library (e.g. the eviction callback)
pub fn report(msg: String) {
    record(msg)
}

pub fn take_errors() -> Vec<String> {
    reg(|r| std::mem::take(&mut r.errors))
}

/// Serials currently live, sorted.
pub fn live_serials() -> Vec<u32> {
    reg(|r| {
        r.state
            .iter()
            .enumerate()
            .filter(|(_, s)| **s == 1)
            .map(|(i, _)| i as u32)
            .collect()
    })
}

pub fn is_live_serial(s: u32) -> bool {
    serial_state(s) == 1
}

// ---------------------------------------------------------------- fault injection (C18)

pub mod fault {
    use super::*;

    #[derive(Clone, Copy, PartialEq, Eq, Debug, Hash, PartialOrd, Ord, serde::Serialize, serde::Deserialize)]
    #[repr(u8)]
    pub enum FK {
        HashK = 0,
        EqK = 1,
        CloneK = 2,
        CloneV = 3,
        DropK = 4,
        DropV = 5,
        Callback = 6,
        BuildHasher = 7,
        HasherWrite = 8,
        HasherFinish = 9,
        KeyHasher = 10,
    }
    pub const NKINDS: usize = 11;
    pub const ALL: [FK; NKINDS] = [
        FK::HashK,
        FK::EqK,
        FK::CloneK,
        FK::CloneV,
        FK::DropK,
        FK::DropV,
        FK::Callback,
        FK::BuildHasher,
        FK::HasherWrite,
        FK::HasherFinish,
        FK::KeyHasher,
    ];

    /// Payload of an injected panic (so it can be told apart from a library panic).
    pub struct Injected(pub FK, pub u32);
    /// calls of one kind of user code inside one counted operation after which the operation is taken to spin
    pub const SPIN_LIMIT: u32 = 1 << 26;

    thread_local! {
        static COUNTING: Cell<bool> = const { Cell::new(false) };
        static COUNTS: Cell<[u32; NKINDS]> = const { Cell::new([0; NKINDS]) };
        static ARMED: Cell<Option<(FK, u32)>> = const { Cell::new(None) };
    }

    /// Start counting calls into user code (and optionally arm one fault).
    pub fn start(arm: Option<(FK, u32)>) {
        COUNTS.with(|c| c.set([0; NKINDS]));
        ARMED.with(|a| a.set(arm));
        COUNTING.with(|c| c.set(true));
    }

    /// Stop counting; returns the per-kind call counts and whether the armed fault fired.
    pub fn stop() -> ([u32; NKINDS], bool) {
        COUNTING.with(|c| c.set(false));
        let fired = ARMED.with(|a| a.replace(None)).is_none();
        (COUNTS.with(|c| c.get()), fired)
    }

    #[inline]
    pub fn tick(kind: FK) {
        if !COUNTING.with(|c| c.get()) {
            return;
        }
        let idx = COUNTS.with(|c| {
            let mut v = c.get();
            let i = v[kind as usize];
            v[kind as usize] = i.saturating_add(1);
            c.set(v);
            i
        });
        if idx >= SPIN_LIMIT {
            // No operation of a fault-pass configuration (a handful of entries) makes 2^26 calls into
            // user code: the library is looping on a structure it cannot make progress on (e.g.
            // `while len > cap { remove_lru() }` with an entry that is on the list but not in the index).
            // Recorded once, then the execution is unwound so that the run terminates.
            if idx == SPIN_LIMIT {
                super::report(format!(
                    "operation does not return: more than 2^26 calls of user code ({:?}) inside one operation - the library loops on a structure it cannot make progress on",
                    kind
                ));
            }
            super::spin_abort();
            return;
        }
        if let Some((k, i)) = ARMED.with(|a| a.get()) {
            if k == kind && i == idx {
                if matches!(kind, FK::DropK | FK::DropV) && std::thread::panicking() {
                    return; // a panic while unwinding aborts: Rust's rule, not the library's
                }
                ARMED.with(|a| a.set(None));
                std::panic::panic_any(Injected(kind, idx));
            }
        }
    }
}
use fault::{tick, FK};

// ---------------------------------------------------------------- traits

pub trait KeyQ {
    type Q: ?Sized + Hash + Eq;
}

pub trait KeyT: KeyQ + Hash + Eq + Clone + Borrow<<Self as KeyQ>::Q> + Send + 'static {
    const NAME: &'static str;
    fn mk(id: u8) -> Self;
    /// key id, or 255 when the memory is not a valid live key
    fn id(&self) -> u8;
    fn serial(&self) -> u32;
    /// borrowed lookup form for key id
    fn q(id: u8) -> &'static <Self as KeyQ>::Q;
}

pub trait ValT: Clone + Send + 'static {
    fn mk(key: u8, ver: u8) -> Self;
    /// (key tag, version) or (255,255) when not a valid live value
    fn kv(&self) -> (u8, u8);
    fn flip(&mut self);
    fn serial(&self) -> u32;
}

// ---------------------------------------------------------------- plain types

static U64S: [u64; 96] = [0, 1, 2, 3, 4, 5, 6, 7, 8, 9, 10, 11, 12, 13, 14, 15, 16, 17, 18, 19, 20, 21, 22, 23, 24, 25, 26, 27, 28, 29, 30, 31, 32, 33, 34, 35, 36, 37, 38, 39, 40, 41, 42, 43, 44, 45, 46, 47, 48, 49, 50, 51, 52, 53, 54, 55, 56, 57, 58, 59, 60, 61, 62, 63, 64, 65, 66, 67, 68, 69, 70, 71, 72, 73, 74, 75, 76, 77, 78, 79, 80, 81, 82, 83, 84, 85, 86, 87, 88, 89, 90, 91, 92, 93, 94, 95];

impl KeyQ for u64 {
    type Q = u64;
}
impl KeyT for u64 {
    const NAME: &'static str = "u64";
    fn mk(id: u8) -> Self {
        id as u64
    }
    fn id(&self) -> u8 {
        if *self < 255 {
            *self as u8
        } else {
            255
        }
    }
    fn serial(&self) -> u32 {
        0
    }
    fn q(id: u8) -> &'static u64 {
        &U64S[id as usize]
    }
}

#[derive(Clone, Copy, PartialEq, Eq, Debug, Hash)]
pub struct PV(pub u8, pub u8);
impl ValT for PV {
    fn mk(key: u8, ver: u8) -> Self {
        PV(key, ver)
    }
    fn kv(&self) -> (u8, u8) {
        (self.0, self.1)
    }
    fn flip(&mut self) {
        self.1 ^= 1;
    }
    fn serial(&self) -> u32 {
        0
    }
}

// ---------------------------------------------------------------- tracked key

static NAMES: [&str; 96] = ["k0", "k1", "k2", "k3", "k4", "k5", "k6", "k7", "k8", "k9", "k10", "k11", "k12", "k13", "k14", "k15", "k16", "k17", "k18", "k19", "k20", "k21", "k22", "k23", "k24", "k25", "k26", "k27", "k28", "k29", "k30", "k31", "k32", "k33", "k34", "k35", "k36", "k37", "k38", "k39", "k40", "k41", "k42", "k43", "k44", "k45", "k46", "k47", "k48", "k49", "k50", "k51", "k52", "k53", "k54", "k55", "k56", "k57", "k58", "k59", "k60", "k61", "k62", "k63", "k64", "k65", "k66", "k67", "k68", "k69", "k70", "k71", "k72", "k73", "k74", "k75", "k76", "k77", "k78", "k79", "k80", "k81", "k82", "k83", "k84", "k85", "k86", "k87", "k88", "k89", "k90", "k91", "k92", "k93", "k94", "k95"];

pub struct TK {
    id: u8,
    serial: u32,
    name: ManuallyDrop<String>,
}

impl TK {
    fn valid(&self, what: &str) -> bool {
        check_live(what, self.serial)
    }
}

impl KeyQ for TK {
    type Q = str;
}
impl KeyT for TK {
    const NAME: &'static str = "TK(String, looked up via &str)";
    fn mk(id: u8) -> Self {
        TK { id, serial: new_serial(), name: ManuallyDrop::new(String::from(NAMES[id as usize])) }
    }
    fn id(&self) -> u8 {
        if serial_state(self.serial) == 1 && (self.id as usize) < NAMES.len() && self.name.as_str() == NAMES[self.id as usize] {
            self.id
        } else {
            255
        }
    }
    fn serial(&self) -> u32 {
        self.serial
    }
    fn q(id: u8) -> &'static str {
        NAMES[id as usize]
    }
}

impl Hash for TK {
    fn hash<H: Hasher>(&self, state: &mut H) {
        tick(FK::HashK);
        if self.valid("hash") {
            self.name.as_str().hash(state)
        } else {
            "<dead>".hash(state)
        }
    }
}
impl PartialEq for TK {
    fn eq(&self, other: &Self) -> bool {
        tick(FK::EqK);
        let a = self.valid("eq");
        let b = other.valid("eq");
        a && b && self.name.as_str() == other.name.as_str()
    }
}
impl Eq for TK {}
impl Borrow<str> for TK {
    fn borrow(&self) -> &str {
        if serial_state(self.serial) == 1 {
            self.name.as_str()
        } else {
            record(format!("borrow of a dead key (serial field {:#x})", self.serial));
            abort_execution();
            "<dead>"
        }
    }
}
impl Clone for TK {
    fn clone(&self) -> Self {
        tick(FK::CloneK);
        if self.valid("clone") {
            TK { id: self.id, serial: new_serial(), name: ManuallyDrop::new(String::clone(&self.name)) }
        } else {
            TK { id: 254, serial: new_serial(), name: ManuallyDrop::new(String::from("<dead>")) }
        }
    }
}
impl Drop for TK {
    fn drop(&mut self) {
        if mark_dropped("key", self.serial) {
            unsafe { ManuallyDrop::drop(&mut self.name) };
            tick(FK::DropK);
        }
    }
}
impl std::fmt::Debug for TK {
    fn fmt(&self, f: &mut std::fmt::Formatter<'_>) -> std::fmt::Result {
        write!(f, "TK{}#{}", self.id, self.serial)
    }
}

// ---------------------------------------------------------------- tracked value

pub struct TV {
    key: u8,
    ver: u8,
    serial: u32,
    payload: ManuallyDrop<Box<[u8; 2]>>,
}

impl ValT for TV {
    fn mk(key: u8, ver: u8) -> Self {
        TV { key, ver, serial: new_serial(), payload: ManuallyDrop::new(Box::new([key, ver])) }
    }
    fn kv(&self) -> (u8, u8) {
        if serial_state(self.serial) == 1 && self.payload[0] == self.key {
            (self.key, self.ver)
        } else {
            (255, 255)
        }
    }
    fn flip(&mut self) {
        if check_live("write", self.serial) {
            self.ver ^= 1;
            self.payload[1] = self.ver;
        }
    }
    fn serial(&self) -> u32 {
        self.serial
    }
}
impl Clone for TV {
    fn clone(&self) -> Self {
        tick(FK::CloneV);
        if check_live("clone", self.serial) {
            TV { key: self.key, ver: self.ver, serial: new_serial(), payload: ManuallyDrop::new(Box::new([self.key, self.ver])) }
        } else {
            TV { key: 254, ver: 254, serial: new_serial(), payload: ManuallyDrop::new(Box::new([254, 254])) }
        }
    }
}
impl Drop for TV {
    fn drop(&mut self) {
        if mark_dropped("value", self.serial) {
            unsafe { ManuallyDrop::drop(&mut self.payload) };
            tick(FK::DropV);
        }
    }
}
impl std::fmt::Debug for TV {
    fn fmt(&self, f: &mut std::fmt::Formatter<'_>) -> std::fmt::Result {
        write!(f, "TV({},{})#{}", self.key, self.ver, self.serial)
    }
}
