//! E4 / C19: the complete (method or type) x (misuse pattern) matrix of probe programs, each judged
//! by rustc, each misuse cell paired with a positive control built from the same template.
//! This is bounded exhaustive enumeration of a generated program family; it says nothing about
//! client programs outside the matrix (claimed as `exploration`).
use crate::check::{EngineReport, Extra};
use crate::oracle::Finding;
use crate::plan::Tier;
use rayon::prelude::*;
use serde_json::json;
use std::collections::{BTreeMap, BTreeSet};
use std::process::Command;

const EXPECTED: [&str; 9] = ["E0499", "E0502", "E0505", "E0506", "E0597", "E0716", "E0277", "E0521", "E0503"];

#[derive(Clone)]
struct Row {
    ty: &'static str,
    name: String,
    /// expression producing a borrow of `c`
    take: String,
    yields_mut: bool,
    /// generated from a source scan (a public borrowing method that has no hand-written row): best effort —
    /// dropped, not an error, if its positive control does not compile
    auto: bool,
}

struct Probe {
    auto: bool,
    id: String,
    row: String,
    pattern: &'static str,
    misuse: bool,
    src: String,
}

fn setup(ty: &str) -> &'static str {
    match ty {
        "RawLRU" => "let mut c: caches::RawLRU<u64, String> = caches::RawLRU::new(3).unwrap();",
        "SegmentedCache" => "let mut c: caches::SegmentedCache<u64, String> = caches::SegmentedCache::new(2, 2).unwrap();",
        "TwoQueueCache" => "let mut c: caches::TwoQueueCache<u64, String> = caches::TwoQueueCache::new(4).unwrap();",
        "AdaptiveCache" => "let mut c: caches::AdaptiveCache<u64, String> = caches::AdaptiveCache::new(4).unwrap();",
        _ => "let mut c: caches::WTinyLFUCache<u64, String> = caches::WTinyLFUCache::with_sizes(1, 2, 2, 5).unwrap();",
    }
}

fn rows() -> Vec<Row> {
    let mut v = vec![];
    let mut add = |ty: &'static str, name: &str, take: &str, m: bool| v.push(Row { ty, name: name.to_string(), take: take.to_string(), yields_mut: m, auto: false });
    for ty in ["RawLRU", "SegmentedCache", "TwoQueueCache", "AdaptiveCache", "WTinyLFUCache"] {
        add(ty, "get", "c.get(&1)", false);
        add(ty, "get_mut", "c.get_mut(&1)", true);
        add(ty, "peek", "c.peek(&1)", false);
        add(ty, "peek_mut", "c.peek_mut(&1)", true);
    }
    for (n, m) in [
        ("get_lru", false),
        ("get_lru_mut", true),
        ("get_mru", false),
        ("get_mru_mut", true),
        ("peek_lru", false),
        ("peek_lru_mut", true),
        ("peek_mru", false),
        ("peek_mru_mut", true),
    ] {
        add("RawLRU", n, &format!("c.{}()", n), m);
    }
    add("RawLRU", "peek_or_put", "c.peek_or_put(1, String::new()).0", false);
    add("RawLRU", "peek_mut_or_put", "c.peek_mut_or_put(1, String::new()).0", true);
    for (n, m) in [
        ("iter", false),
        ("iter_lru", false),
        ("iter_mut", true),
        ("iter_lru_mut", true),
        ("keys", false),
        ("keys_lru", false),
        ("values", false),
        ("values_lru", false),
        ("values_mut", true),
        ("values_lru_mut", true),
    ] {
        add("RawLRU", n, &format!("c.{}()", n), m);
        for pfx in ["recent", "frequent", "ghost"] {
            add("TwoQueueCache", &format!("{}_{}", pfx, n), &format!("c.{}_{}()", pfx, n), m);
        }
        for pfx in ["recent", "frequent", "recent_evict", "frequent_evict"] {
            add("AdaptiveCache", &format!("{}_{}", pfx, n), &format!("c.{}_{}()", pfx, n), m);
        }
    }
    add("RawLRU", "(&cache).into_iter", "(&c).into_iter()", false);
    add("RawLRU", "(&mut cache).into_iter", "(&mut c).into_iter()", true);
    for (n, m) in [
        ("peek_lru_from_probationary", false),
        ("peek_lru_mut_from_probationary", true),
        ("peek_mru_from_probationary", false),
        ("peek_mru_mut_from_probationary", true),
        ("peek_lru_from_protected", false),
        ("peek_lru_mut_from_protected", true),
        ("peek_mru_from_protected", false),
        ("peek_mru_mut_from_protected", true),
    ] {
        add("SegmentedCache", n, &format!("c.{}()", n), m);
    }
    let known: BTreeSet<String> = v.iter().map(|r| r.name.clone()).collect();
    v.extend(auto_rows(&known));
    v
}

/// public methods of the five cache types that take `&self`/`&mut self`, return something borrowed and have
/// no hand-written row: a row is generated when the argument list has one of three simple shapes
fn auto_rows(known: &BTreeSet<String>) -> Vec<Row> {
    let mut out = vec![];
    for (f, ty) in [("src/lru/raw.rs", "RawLRU"), ("src/lru/segmented.rs", "SegmentedCache"), ("src/lru/two_queue.rs", "TwoQueueCache"), ("src/lru/adaptive.rs", "AdaptiveCache"), ("src/lfu/wtinylfu.rs", "WTinyLFUCache")] {
        let text = match std::fs::read_to_string(format!("{}/{}", crate::check::repo_dir(), f)) {
            Ok(t) => t,
            Err(_) => continue,
        };
        let text = text.split("#[cfg(test)]").next().unwrap_or("").to_string();
        let mut rest = text.as_str();
        while let Some(i) = rest.find("pub fn ") {
            rest = &rest[i + 7..];
            let name: String = rest.chars().take_while(|c| c.is_alphanumeric() || *c == '_').collect();
            let sig_end = rest.find('{').unwrap_or(rest.len().min(400));
            let sig = &rest[..sig_end];
            let (open, arrow) = match (sig.find('('), sig.find("->")) {
                (Some(o), Some(a)) => (o, a),
                _ => continue,
            };
            let ret = &sig[arrow..];
            if !(ret.contains('&') || ret.contains("Iter")) || name.starts_with("verif_") || known.contains(&name) {
                continue;
            }
            // parameter list up to the matching parenthesis
            let mut depth = 0;
            let mut close = open;
            for (j, ch) in sig[open..].char_indices() {
                match ch {
                    '(' => depth += 1,
                    ')' => {
                        depth -= 1;
                        if depth == 0 {
                            close = open + j;
                            break;
                        }
                    }
                    _ => {}
                }
            }
            let params: Vec<String> = sig[open + 1..close].split(',').map(|p| p.trim().to_string()).filter(|p| !p.is_empty()).collect();
            let recv = params.first().cloned().unwrap_or_default();
            if !(recv.starts_with('&') && recv.ends_with("self")) {
                continue;
            }
            let args: Vec<&String> = params.iter().skip(1).collect();
            let call = match args.len() {
                0 => format!("c.{}()", name),
                1 if args[0].contains('&') => format!("c.{}(&1)", name),
                2 if !args[0].contains('&') && !args[1].contains('&') => format!("c.{}(1, String::new())", name),
                _ => continue,
            };
            let take = if ret.contains('(') && ret.contains("Option<&") && args.len() == 2 { format!("{}.0", call) } else { call };
            out.push(Row { ty, name: name.clone(), take, yields_mut: ret.contains("&mut") || ret.contains("&'a mut") || ret.contains("IterMut"), auto: true });
        }
    }
    out
}

const PRELUDE: &str = "#![allow(unused, dropping_references)]\nuse caches::{Cache, ResizableCache};\nfn use_it<T>(_t: T) {}\n";

fn fill() -> &'static str {
    "c.put(1, String::from(\"a\")); c.put(2, String::from(\"b\"));"
}

fn borrow_probes() -> Vec<Probe> {
    let mut out = vec![];
    for r in rows() {
        let rowname = format!("{}::{}", r.ty, r.name);
        // every operation that relinks, frees or overwrites entries counts as a mutation
        let mut muts: Vec<(&str, &str)> = vec![
            ("put", "c.put(3, String::from(\"c\"));"),
            ("purge", "c.purge();"),
            ("remove", "c.remove(&1);"),
            ("get", "c.get(&2);"),
            ("get_mut", "c.get_mut(&2);"),
        ];
        if r.ty == "RawLRU" {
            muts.push(("resize", "c.resize(1);"));
            muts.push(("get_lru", "c.get_lru();"));
            muts.push(("get_lru_mut", "c.get_lru_mut();"));
            muts.push(("remove_lru", "c.remove_lru();"));
            muts.push(("peek_or_put", "c.peek_or_put(9, String::new());"));
            muts.push(("contains_or_put", "c.contains_or_put(9, String::new());"));
        }
        if r.ty == "SegmentedCache" {
            muts.push(("put_protected", "c.put_protected(3, String::new());"));
            muts.push(("remove_lru_from_probationary", "c.remove_lru_from_probationary();"));
            muts.push(("remove_lru_from_protected", "c.remove_lru_from_protected();"));
        }
        let base = format!("{}pub fn probe() {{\n    {}\n    {}\n", PRELUDE, setup(r.ty), fill());
        // P1: reference held across a mutation / control: used before the mutation
        for (mn, m) in &muts {
            out.push(Probe { auto: r.auto, id: String::new(), row: rowname.clone(), pattern: "held_across_mutation", misuse: true, src: format!("{}    let r = {};\n    {}\n    use_it(r);\n}}\n", base, r.take, m) });
            if *mn == "put" {
                out.push(Probe { auto: r.auto, id: String::new(), row: rowname.clone(), pattern: "held_across_mutation", misuse: false, src: format!("{}    let r = {};\n    use_it(r);\n    {}\n}}\n", base, r.take, m) });
            }
        }
        // P2: outliving the cache (scope end / explicit drop)
        out.push(Probe {
            auto: r.auto,
            id: String::new(),
            row: rowname.clone(),
            pattern: "outlives_cache_scope",
            misuse: true,
            src: format!("{}pub fn probe() {{\n    let r;\n    {{\n        {}\n        {}\n        r = {};\n    }}\n    use_it(r);\n}}\n", PRELUDE, setup(r.ty), fill(), r.take),
        });
        out.push(Probe { auto: r.auto, id: String::new(), row: rowname.clone(), pattern: "outlives_cache_drop", misuse: true, src: format!("{}    let r = {};\n    drop(c);\n    use_it(r);\n}}\n", base, r.take) });
        out.push(Probe { auto: r.auto, id: String::new(), row: rowname.clone(), pattern: "outlives_cache_drop", misuse: false, src: format!("{}    let r = {};\n    use_it(r);\n    drop(c);\n}}\n", base, r.take) });
        // P3: two live mutable borrows of the same entry
        if r.yields_mut {
            out.push(Probe {
                auto: r.auto,
                id: String::new(),
                row: rowname.clone(),
                pattern: "two_live_mutable_borrows",
                misuse: true,
                src: format!("{}    let a = {};\n    let b = {};\n    use_it(a);\n    use_it(b);\n}}\n", base, r.take, r.take),
            });
        }
        if r.yields_mut {
            // a mutable borrow next to a shared one of the same entry
            out.push(Probe { auto: r.auto, id: String::new(), row: rowname.clone(), pattern: "mutable_next_to_shared", misuse: true, src: format!("{}    let a = {};\n    let b = c.peek(&1);\n    use_it(a);\n    use_it(b);\n}}\n", base, r.take) });
        }
    }
    out
}

fn marker_probes() -> Vec<Probe> {
    let mut out = vec![];
    let head = format!("{}use std::cell::Cell;\nuse std::rc::Rc;\nfn is_send<T: Send>() {{}}\nfn is_sync<T: Sync>() {{}}\n", PRELUDE);
    let mut add = |row: String, pattern: &'static str, misuse: bool, body: String| {
        out.push(Probe { auto: false, id: String::new(), row, pattern, misuse, src: format!("{}pub fn probe() {{\n    {}\n}}\n", head, body) });
    };
    let shared = ["MRUIter", "LRUIter", "KeysMRUIter", "KeysLRUIter", "ValuesMRUIter", "ValuesLRUIter"];
    let mutable = ["MRUIterMut", "LRUIterMut", "ValuesMRUIterMut", "ValuesLRUIterMut"];
    for it in shared.iter().chain(mutable.iter()) {
        let row = format!("iterator {}", it);
        let t = |k: &str, v: &str| format!("caches::lru::{}<'static, {}, {}>", it, k, v);
        // positive controls
        add(row.clone(), "send_sync_marker", false, format!("is_send::<{}>(); is_sync::<{}>();", t("u64", "String"), t("u64", "String")));
        // nothing is Send/Sync when keys or values are not (Rc)
        for (k, v) in [("Rc<u8>", "u8"), ("u8", "Rc<u8>")] {
            add(row.clone(), "send_sync_marker", true, format!("is_send::<{}>();", t(k, v)));
            add(row.clone(), "send_sync_marker", true, format!("is_sync::<{}>();", t(k, v)));
        }
        // keys are always handed out by shared reference: K must be Sync to send the iterator
        add(row.clone(), "send_sync_marker", true, format!("is_send::<{}>();", t("Cell<u8>", "u8")));
        add(row.clone(), "send_sync_marker", true, format!("is_sync::<{}>();", t("Cell<u8>", "u8")));
        add(row.clone(), "send_sync_marker", true, format!("is_sync::<{}>();", t("u8", "Cell<u8>")));
        if shared.contains(it) {
            // values handed out by shared reference: V must be Sync to send the iterator
            add(row.clone(), "send_sync_marker", true, format!("is_send::<{}>();", t("u8", "Cell<u8>")));
        }
    }
    // iterators that hand out `&mut V` must not be duplicable (a copy would yield a second live `&mut V`);
    // the shared ones are Clone (positive control)
    for it in mutable.iter() {
        let row = format!("iterator {}", it);
        let t = format!("caches::lru::{}<'static, u64, String>", it);
        add(row.clone(), "mutable_iterator_not_duplicable", true, format!("fn is_clone<T: Clone>() {{}}\n    is_clone::<{}>();", t));
    }
    for it in shared.iter() {
        let row = format!("iterator {}", it);
        let t = format!("caches::lru::{}<'static, u64, String>", it);
        add(row.clone(), "mutable_iterator_not_duplicable", false, format!("fn is_clone<T: Clone>() {{}}\n    is_clone::<{}>();", t));
    }
    for (ctor, name) in [("iter_mut", "MRUIterMut"), ("iter_lru_mut", "LRUIterMut"), ("values_mut", "ValuesMRUIterMut"), ("values_lru_mut", "ValuesLRUIterMut")] {
        add(
            format!("iterator {}", name),
            "mutable_iterator_not_duplicable",
            true,
            format!("let mut c: caches::RawLRU<u64, String> = caches::RawLRU::new(2).unwrap(); c.put(1, String::new());\n    let a = c.{}();\n    let b = Clone::clone(&a);\n    use_it(a); use_it(b);", ctor),
        );
    }
    let caches = [
        ("RawLRU", "caches::RawLRU<{K}, {V}>"),
        ("SegmentedCache", "caches::SegmentedCache<{K}, {V}>"),
        ("TwoQueueCache", "caches::TwoQueueCache<{K}, {V}>"),
        ("AdaptiveCache", "caches::AdaptiveCache<{K}, {V}>"),
    ];
    for (name, tmpl) in caches {
        let row = format!("cache type {}", name);
        let t = |k: &str, v: &str| tmpl.replace("{K}", k).replace("{V}", v);
        add(row.clone(), "send_sync_marker", false, format!("is_send::<{}>(); is_sync::<{}>();", t("u64", "String"), t("u64", "String")));
        for (k, v) in [("Rc<u8>", "u8"), ("u8", "Rc<u8>")] {
            add(row.clone(), "send_sync_marker", true, format!("is_send::<{}>();", t(k, v)));
            add(row.clone(), "send_sync_marker", true, format!("is_sync::<{}>();", t(k, v)));
        }
        for (k, v) in [("Cell<u8>", "u8"), ("u8", "Cell<u8>")] {
            add(row.clone(), "send_sync_marker", true, format!("is_sync::<{}>();", t(k, v)));
        }
        // a cache of Send-but-not-Sync values may still be moved to another thread
        add(row.clone(), "send_sync_marker", false, format!("is_send::<{}>();", t("u64", "Cell<u8>")));
    }
    // values that are Sync but not Send (a MutexGuard): an iterator that hands out `&mut V` moves the values'
    // mutable access to the receiving thread, so it needs V: Send, not V: Sync
    for it in mutable.iter() {
        let row = format!("iterator {}", it);
        add(row.clone(), "send_sync_marker", true, format!("is_send::<caches::lru::{}<'static, u8, std::sync::MutexGuard<'static, u8>>>();", it));
    }
    for (name, tmpl) in caches {
        let row = format!("cache type {}", name);
        let t = tmpl.replace("{K}", "u8").replace("{V}", "std::sync::MutexGuard<'static, u8>");
        add(row.clone(), "send_sync_marker", true, format!("is_send::<{}>();", t));
        let t = tmpl.replace("{K}", "std::sync::MutexGuard<'static, u8>").replace("{V}", "u8");
        add(row.clone(), "send_sync_marker", true, format!("is_send::<{}>();", t));
    }
    // the other type parameters are contents too: an eviction callback or a BuildHasher that is not Send/Sync
    // (it holds an Rc) must keep the cache from being Send/Sync
    {
        let defs = "struct CbRc(Rc<u8>);\n    impl caches::OnEvictCallback for CbRc { fn on_evict<K, V>(&self, _: &K, _: &V) {} }\n    struct CbOk(u8);\n    impl caches::OnEvictCallback for CbOk { fn on_evict<K, V>(&self, _: &K, _: &V) {} }\n    #[derive(Clone, Default)] struct HRc(Rc<u8>);\n    impl std::hash::BuildHasher for HRc { type Hasher = std::collections::hash_map::DefaultHasher; fn build_hasher(&self) -> Self::Hasher { Default::default() } }\n    ".replace("\\n", "\n");
        let row = "cache type RawLRU (callback / hasher parameters)".to_string();
        add(row.clone(), "send_sync_marker", false, format!("{}is_send::<caches::RawLRU<u64, String, CbOk>>(); is_sync::<caches::RawLRU<u64, String, CbOk>>();", defs));
        add(row.clone(), "send_sync_marker", true, format!("{}is_send::<caches::RawLRU<u64, String, CbRc>>();", defs));
        add(row.clone(), "send_sync_marker", true, format!("{}is_sync::<caches::RawLRU<u64, String, CbRc>>();", defs));
        add(row.clone(), "send_sync_marker", true, format!("{}is_send::<caches::RawLRU<u64, String, caches::DefaultEvictCallback, HRc>>();", defs));
        add(row.clone(), "send_sync_marker", true, format!("{}is_sync::<caches::RawLRU<u64, String, caches::DefaultEvictCallback, HRc>>();", defs));
        for (name, ty) in [
            ("SegmentedCache", "caches::SegmentedCache<u64, String, HRc, HRc>"),
            ("TwoQueueCache", "caches::TwoQueueCache<u64, String, HRc, HRc, HRc>"),
            ("AdaptiveCache", "caches::AdaptiveCache<u64, String, HRc, HRc, HRc, HRc>"),
        ] {
            let row = format!("cache type {} (hasher parameters)", name);
            add(row.clone(), "send_sync_marker", true, format!("{}is_send::<{}>();", defs, ty));
            add(row.clone(), "send_sync_marker", true, format!("{}is_sync::<{}>();", defs, ty));
        }
        // really moving a cache with an Rc-holding callback to another thread
        add(
            row.clone(),
            "send_sync_marker",
            true,
            format!("{}let rc = Rc::new(0u8); let c: caches::RawLRU<u64, u8, CbRc> = caches::RawLRU::with_on_evict_cb(2, CbRc(rc.clone())).unwrap();\n    std::thread::spawn(move || {{ let mut c = c; c.put(1, 1); c.put(2, 2); c.put(3, 3); }});\n    use_it(rc);", defs).replace("\\n", "\n"),
        );
    }
    // W-TinyLFU (keys must be hashable for the type to be well-formed)
    let row = "cache type WTinyLFUCache".to_string();
    add(row.clone(), "send_sync_marker", false, "is_send::<caches::WTinyLFUCache<u64, String>>(); is_sync::<caches::WTinyLFUCache<u64, String>>();".to_string());
    add(row.clone(), "send_sync_marker", true, "is_send::<caches::WTinyLFUCache<Rc<u8>, u8>>();".to_string());
    add(row.clone(), "send_sync_marker", true, "is_sync::<caches::WTinyLFUCache<u8, Rc<u8>>>();".to_string());
    add(row.clone(), "send_sync_marker", true, "is_send::<caches::WTinyLFUCache<u8, Rc<u8>>>();".to_string());
    add(row.clone(), "send_sync_marker", true, "is_sync::<caches::WTinyLFUCache<u8, Cell<u8>>>();".to_string());
    // a live iterator really crossing a thread boundary
    add(
        "iterator MRUIter".into(),
        "iterator_over_cells_sent_to_thread",
        true,
        "let mut c: caches::RawLRU<u64, Cell<u8>> = caches::RawLRU::new(2).unwrap(); c.put(1, Cell::new(0));\n    std::thread::scope(|s| { let it = c.iter(); s.spawn(move || { for (_, v) in it { v.set(1); } }); for (_, v) in c.iter() { v.set(2); } });".to_string(),
    );
    add(
        "iterator MRUIter".into(),
        "iterator_over_cells_sent_to_thread",
        false,
        "let mut c: caches::RawLRU<u64, u8> = caches::RawLRU::new(2).unwrap(); c.put(1, 0);\n    std::thread::scope(|s| { let it = c.iter(); s.spawn(move || { for (_, v) in it { use_it(v); } }); for (_, v) in c.iter() { use_it(v); } });".to_string(),
    );
    out
}

struct Verdict {
    compiled: bool,
    codes: Vec<String>,
    first_error: String,
}

fn compile(dir: &str, rlib: &str, deps: &str, p: &Probe) -> Result<Verdict, String> {
    let src = format!("{}/{}.rs", dir, p.id);
    let outp = format!("{}/{}.rmeta", dir, p.id);
    std::fs::write(&src, &p.src).map_err(|e| e.to_string())?;
    let o = Command::new("rustc")
        .args(["--edition", "2021", "--crate-type", "lib", "--emit=metadata", "--error-format=json", "--cap-lints", "allow", "-L"])
        .arg(format!("dependency={}", deps))
        .arg("--extern")
        .arg(format!("caches={}", rlib))
        .arg("-o")
        .arg(&outp)
        .arg(&src)
        .output()
        .map_err(|e| format!("cannot run rustc: {}", e))?;
    let stderr = String::from_utf8_lossy(&o.stderr).to_string();
    let mut codes = vec![];
    let mut first = String::new();
    for line in stderr.lines() {
        if let Ok(v) = serde_json::from_str::<serde_json::Value>(line) {
            if v["level"] == "error" {
                if let Some(c) = v["code"]["code"].as_str() {
                    codes.push(c.to_string());
                }
                if first.is_empty() {
                    first = v["message"].as_str().unwrap_or("").to_string();
                }
            }
        }
    }
    let _ = std::fs::remove_file(&src);
    let _ = std::fs::remove_file(&outp);
    Ok(Verdict { compiled: o.status.success(), codes, first_error: first })
}

/// public methods in /repo/src that return references or iterators but are not rows of the matrix
fn unprobed_methods(known: &BTreeSet<String>) -> Vec<String> {
    let mut missing = vec![];
    for f in ["src/lru/raw.rs", "src/lru/segmented.rs", "src/lru/two_queue.rs", "src/lru/adaptive.rs", "src/lfu/wtinylfu.rs"] {
        let text = match std::fs::read_to_string(format!("{}/{}", crate::check::repo_dir(), f)) {
            Ok(t) => t,
            Err(_) => continue,
        };
        let text = text.split("#[cfg(test)]").next().unwrap_or("").to_string();
        let mut rest = text.as_str();
        while let Some(i) = rest.find("pub fn ") {
            rest = &rest[i + 7..];
            let name: String = rest.chars().take_while(|c| c.is_alphanumeric() || *c == '_').collect();
            let sig_end = rest.find('{').unwrap_or(rest.len().min(400));
            let sig = &rest[..sig_end];
            if let Some(arrow) = sig.find("->") {
                let ret = &sig[arrow..];
                let borrows = ret.contains('&') || ret.contains("Iter");
                if borrows && sig.contains("self") && !name.starts_with("verif_") && !known.contains(&name) {
                    missing.push(format!("{}::{}", f, name));
                }
            }
        }
    }
    missing.sort();
    missing.dedup();
    missing
}

pub fn run(_tier: Tier) -> EngineReport {
    let mut rep = EngineReport { name: "compile-probe-matrix (rustc)".into(), exhaustive: true, ..Default::default() };
    let rlib = match std::env::var("MC_CACHES_RLIB") {
        Ok(r) if std::path::Path::new(&r).exists() => r,
        _ => {
            rep.machinery_errors.push("MC_CACHES_RLIB is not set (the probe matrix is driven by ./check C19)".into());
            return rep;
        }
    };
    let deps = std::path::Path::new(&rlib).parent().map(|p| p.to_string_lossy().to_string()).unwrap_or_default();
    let dir = format!("{}/target/probes-{}", crate::check::verif_dir(), std::process::id());
    let _ = std::fs::create_dir_all(&dir);
    let mut probes = borrow_probes();
    probes.extend(marker_probes());
    for (i, p) in probes.iter_mut().enumerate() {
        p.id = format!("p{:04}", i);
    }
    let verdicts: Vec<Result<Verdict, String>> = probes.par_iter().map(|p| compile(&dir, &rlib, &deps, p)).collect();
    let _ = std::fs::remove_dir_all(&dir);
    // best-effort rows: a generated row whose positive control does not compile is not judged at all
    let mut unusable_auto: BTreeSet<String> = BTreeSet::new();
    for (p, v) in probes.iter().zip(verdicts.iter()) {
        if p.auto && !p.misuse {
            if let Ok(v) = v {
                if !v.compiled {
                    unusable_auto.insert(p.row.clone());
                }
            }
        }
    }
    let mut per_pattern: BTreeMap<String, (u64, u64)> = BTreeMap::new();
    let mut code_hist: BTreeMap<String, u64> = BTreeMap::new();
    let mut rows_seen: BTreeSet<String> = BTreeSet::new();
    for (p, v) in probes.iter().zip(verdicts.iter()) {
        rep.evaluations += 1;
        rows_seen.insert(p.row.clone());
        if p.auto && unusable_auto.contains(&p.row) {
            continue;
        }
        let e = per_pattern.entry(format!("{}{}", p.pattern, if p.misuse { "" } else { " (control)" })).or_insert((0, 0));
        e.0 += 1;
        let v = match v {
            Ok(v) => v,
            Err(m) => {
                if rep.machinery_errors.len() < 3 {
                    rep.machinery_errors.push(m.clone());
                }
                continue;
            }
        };
        for c in &v.codes {
            *code_hist.entry(c.clone()).or_insert(0) += 1;
        }
        if p.misuse {
            if v.compiled {
                rep.violations.push(Extra {
                    finding: Finding::new("C19", "misuse_is_rejected_at_compile_time", format!("{}/{}", p.row, p.pattern), format!("this misuse of {} ({}) compiles:\n{}", p.row, p.pattern, p.src)),
                    case: json!({"engine": "probes", "row": p.row, "pattern": p.pattern, "source": p.src}),
                    count: 1,
                });
            } else if p.auto && !v.codes.iter().any(|c| EXPECTED.contains(&c.as_str())) {
                // generated template does not fit this method
            } else if !v.codes.iter().any(|c| EXPECTED.contains(&c.as_str())) {
                if rep.machinery_errors.len() < 3 {
                    rep.machinery_errors.push(format!("probe {} / {} fails for an unrelated reason ({:?}: {}); the template is broken\n{}", p.row, p.pattern, v.codes, v.first_error, p.src));
                }
            } else {
                e.1 += 1;
            }
        } else if !v.compiled {
            // a control that does not compile: the API cannot be used the intended way (or the template is stale)
            if rep.machinery_errors.len() < 3 {
                rep.machinery_errors.push(format!("positive control for {} / {} does not compile ({:?}: {})\n{}", p.row, p.pattern, v.codes, v.first_error, p.src));
            }
        } else {
            e.1 += 1;
        }
    }
    let all_rows = rows();
    let known: BTreeSet<String> = all_rows.iter().map(|r| r.name.clone()).collect();
    let unprobed = unprobed_methods(&known);
    let auto_used: Vec<String> = all_rows.iter().filter(|r| r.auto).map(|r| format!("{}::{}{}", r.ty, r.name, if unusable_auto.contains(&format!("{}::{}", r.ty, r.name)) { " (template did not fit; not judged)" } else { "" })).collect();
    for u in &unprobed {
        eprintln!("[C19] note: public method {} returns a borrow but has no row in the probe matrix", u);
    }
    rep.distinct_nontrivial = probes.iter().filter(|p| p.misuse).count() as u64;
    rep.samples = probes.iter().step_by(probes.len() / 4 + 1).map(|p| json!({"engine": "probes", "row": p.row, "pattern": p.pattern, "misuse": p.misuse, "source": p.src})).collect();
    rep.detail = json!({
        "rows": rows_seen.len(), "probes": probes.len(), "misuse_probes": probes.iter().filter(|p| p.misuse).count(),
        "per_pattern_(probes, as_expected)": per_pattern, "rustc_error_codes_seen": code_hist, "expected_codes": EXPECTED,
        "public_borrowing_methods_without_a_row": unprobed,
        "rows_generated_from_the_source_scan": auto_used,
    });
    rep
}

pub fn replay_case(case: &serde_json::Value) -> Vec<Finding> {
    let rlib = std::env::var("MC_CACHES_RLIB").unwrap_or_default();
    let deps = std::path::Path::new(&rlib).parent().map(|p| p.to_string_lossy().to_string()).unwrap_or_default();
    let dir = format!("{}/target/probes-replay-{}", crate::check::verif_dir(), std::process::id());
    let _ = std::fs::create_dir_all(&dir);
    let p = Probe { auto: false, id: "replay".into(), row: case["row"].as_str().unwrap_or("").to_string(), pattern: "replay", misuse: true, src: case["source"].as_str().unwrap_or("").to_string() };
    let v = compile(&dir, &rlib, &deps, &p);
    let _ = std::fs::remove_dir_all(&dir);
    match v {
        Ok(v) if v.compiled => vec![Finding::new("C19", "misuse_is_rejected_at_compile_time", p.row.clone(), format!("the probe compiles:\n{}", p.src))],
        Ok(v) => {
            println!("rustc rejects the probe: {:?} {}", v.codes, v.first_error);
            vec![]
        }
        Err(e) => {
            eprintln!("{}", e);
            vec![]
        }
    }
}
