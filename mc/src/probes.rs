//! C19 (placeholder until the probe matrix lands)
use crate::check::EngineReport;
use crate::plan::Tier;
pub fn run(_tier: Tier) -> EngineReport {
    EngineReport { name: "compile-probe-matrix".into(), ..Default::default() }
}
