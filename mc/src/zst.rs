//! Value-type independence: a cache over zero-sized values (`()`, a set-like cache) and over large values
//! (`[u64; 16]`) must treat its keys exactly as the same cache over small values does. The three instances are
//! driven in lock-step through every operation sequence up to a depth (RawLRU: to closure, states merge on the
//! key order and capacity) and compared on everything that does not involve the value itself: which variant a
//! put returned and which key it evicted, hit/miss of every lookup, lengths, membership of every key, and for
//! RawLRU the full key order.
use crate::check::{EngineReport, Extra};
use crate::hashers::{HKind, KHKind, HB, KH};
use crate::lfu::{bfs, EvalOut};
use crate::oracle::Finding;
use crate::plan::Tier;
use caches::{AdaptiveCacheBuilder, Cache, DefaultEvictCallback, PutResult, RawLRU, ResizableCache, SegmentedCacheBuilder, TwoQueueCacheBuilder, WTinyLFUCacheBuilder};
use serde::{Deserialize, Serialize};
use serde_json::json;
use std::panic::{catch_unwind, AssertUnwindSafe};

#[derive(Clone, Copy, Debug, PartialEq, Serialize, Deserialize)]
pub enum ZOp {
    Put(u64),
    Get(u64),
    GetMut(u64),
    Peek(u64),
    PeekMut(u64),
    Contains(u64),
    Remove(u64),
    Purge,
    // RawLRU only
    RemoveLru,
    GetLru,
    GetLruMut,
    GetMru,
    PeekOrPut(u64),
    PeekMutOrPut(u64),
    ContainsOrPut(u64),
    Resize(usize),
}

fn put_shape<V>(r: PutResult<u64, V>) -> String {
    match r {
        PutResult::Put => "Put".into(),
        PutResult::Update(_) => "Update".into(),
        PutResult::Evicted { key, .. } => format!("Evicted({})", key),
        PutResult::EvictedAndUpdate { evicted, .. } => format!("EvictedAndUpdate({})", evicted.0),
    }
}

trait Z {
    fn apply(&mut self, op: ZOp) -> String;
    /// everything observable that does not involve a value
    fn observe(&mut self, keys: u64) -> String;
    /// state key for merging (None = do not merge: the history is the state)
    fn merge_key(&self) -> Option<Vec<u8>>;
}

fn generic<V: Default, C: Cache<u64, V>>(c: &mut C, op: ZOp) -> Option<String> {
    Some(match op {
        ZOp::Put(k) => put_shape(c.put(k, V::default())),
        ZOp::Get(k) => format!("{}", c.get(&k).is_some()),
        ZOp::GetMut(k) => format!("{}", c.get_mut(&k).is_some()),
        ZOp::Peek(k) => format!("{}", c.peek(&k).is_some()),
        ZOp::PeekMut(k) => format!("{}", c.peek_mut(&k).is_some()),
        ZOp::Contains(k) => format!("{}", c.contains(&k)),
        ZOp::Remove(k) => format!("{}", c.remove(&k).is_some()),
        ZOp::Purge => {
            c.purge();
            String::new()
        }
        _ => return None,
    })
}

fn generic_observe<V, C: Cache<u64, V>>(c: &C, keys: u64) -> String {
    let mut s = format!("len={} cap={} empty={} in=[", c.len(), c.cap(), c.is_empty());
    for k in 0..keys {
        s += if c.contains(&k) { "1" } else { "0" };
    }
    s + "]"
}

struct Raw<V>(RawLRU<u64, V, DefaultEvictCallback, HB>);
impl<V: Default> Z for Raw<V> {
    fn apply(&mut self, op: ZOp) -> String {
        if let Some(r) = generic::<V, _>(&mut self.0, op) {
            return r;
        }
        let c = &mut self.0;
        match op {
            ZOp::RemoveLru => format!("{:?}", c.remove_lru().map(|(k, _)| k)),
            ZOp::GetLru => format!("{:?}", c.get_lru().map(|(k, _)| *k)),
            ZOp::GetLruMut => format!("{:?}", c.get_lru_mut().map(|(k, _)| *k)),
            ZOp::GetMru => format!("{:?}", c.get_mru().map(|(k, _)| *k)),
            ZOp::PeekOrPut(k) => {
                let (a, b) = c.peek_or_put(k, V::default());
                format!("{} {:?}", a.is_some(), b.map(put_shape))
            }
            ZOp::PeekMutOrPut(k) => {
                let (a, b) = c.peek_mut_or_put(k, V::default());
                format!("{} {:?}", a.is_some(), b.map(put_shape))
            }
            ZOp::ContainsOrPut(k) => {
                let (a, b) = c.contains_or_put(k, V::default());
                format!("{} {:?}", a, b.map(put_shape))
            }
            ZOp::Resize(n) => format!("{}", c.resize(n)),
            _ => String::new(),
        }
    }
    fn observe(&mut self, keys: u64) -> String {
        let c = &mut self.0;
        let order: Vec<u64> = c.keys().copied().collect();
        let rev: Vec<u64> = c.keys_lru().copied().collect();
        format!("{} order={:?} lru-order={:?} lru={:?} mru={:?} n_iter={} n_values={}", generic_observe(c, keys), order, rev, c.peek_lru().map(|(k, _)| *k), c.peek_mru().map(|(k, _)| *k), c.iter().count(), c.values().count())
    }
    fn merge_key(&self) -> Option<Vec<u8>> {
        let mut v: Vec<u8> = self.0.keys().map(|k| *k as u8).collect();
        v.push(0xff);
        v.extend_from_slice(&(self.0.cap() as u32).to_le_bytes());
        Some(v)
    }
}

struct Gen<C, V>(C, std::marker::PhantomData<V>);
impl<V: Default, C: Cache<u64, V>> Z for Gen<C, V> {
    fn apply(&mut self, op: ZOp) -> String {
        generic::<V, _>(&mut self.0, op).unwrap_or_default()
    }
    fn observe(&mut self, keys: u64) -> String {
        generic_observe(&self.0, keys)
    }
    fn merge_key(&self) -> Option<Vec<u8>> {
        None
    }
}

fn build<V: Default + 'static>(kind: u8, caps: &[usize]) -> Box<dyn Z> {
    let hb = || HB::new(HKind::SipA);
    match kind {
        0 => Box::new(Raw::<V>(RawLRU::with_hasher(caps[0], hb()).unwrap())),
        1 => Box::new(Gen(SegmentedCacheBuilder::new(caps[0], caps[1]).set_probationary_hasher(hb()).set_protected_hasher(hb()).finalize::<u64, V>().unwrap(), std::marker::PhantomData::<V>)),
        2 => Box::new(Gen(TwoQueueCacheBuilder::new(caps[0]).set_recent_ratio(0.5).set_ghost_ratio(1.0).set_recent_hasher(hb()).set_frequent_hasher(hb()).set_ghost_hasher(hb()).finalize::<u64, V>().unwrap(), std::marker::PhantomData::<V>)),
        3 => Box::new(Gen(
            AdaptiveCacheBuilder::new(caps[0]).set_recent_hasher(hb()).set_frequent_hasher(hb()).set_recent_evict_hasher(hb()).set_frequent_evict_hasher(hb()).finalize::<u64, V>().unwrap(),
            std::marker::PhantomData::<V>,
        )),
        _ => {
            let mut c = WTinyLFUCacheBuilder::<u64, KH, HB, HB, HB>::new(caps[0], caps[1], caps[2], 4)
                .set_key_hasher(KH(KHKind::Spread))
                .set_window_hasher(hb())
                .set_protected_hasher(hb())
                .set_probationary_hasher(hb())
                .finalize::<V>()
                .unwrap();
            c.verif_estimator_mut().verif_set_seeds([1, 2, 3, 4]);
            Box::new(Gen(c, std::marker::PhantomData::<V>))
        }
    }
}

const KINDS: [(&str, &str); 5] = [("RawLRU", "C06"), ("SegmentedCache", "C07"), ("TwoQueueCache", "C08"), ("AdaptiveCache", "C09"), ("WTinyLFUCache", "C10")];

fn ops_for(kind: u8, keys: u64, cap: usize) -> Vec<ZOp> {
    let mut v = vec![];
    for k in 0..keys {
        v.extend([ZOp::Put(k), ZOp::Get(k), ZOp::Remove(k)]);
        if kind == 0 {
            v.extend([ZOp::GetMut(k), ZOp::Peek(k), ZOp::PeekMut(k), ZOp::PeekOrPut(k), ZOp::PeekMutOrPut(k), ZOp::ContainsOrPut(k)]);
        }
    }
    v.push(ZOp::Purge);
    if kind == 0 {
        v.extend([ZOp::RemoveLru, ZOp::GetLru, ZOp::GetLruMut, ZOp::GetMru, ZOp::Resize(0), ZOp::Resize(1), ZOp::Resize(cap + 1)]);
    } else {
        v.extend([ZOp::GetMut(0), ZOp::PeekMut(1)]);
    }
    v
}

pub fn run(prop: &'static str, tier: Tier) -> EngineReport {
    let mut rep = EngineReport { name: "value-type independence: () and [u64;16] values in lock-step with u8 values".into(), exhaustive: true, ..Default::default() };
    let big = tier == Tier::Thorough;
    // (kind, caps, keys, depth)
    let menu: Vec<(u8, Vec<usize>, u64, usize)> = vec![
        (0, vec![2], 3, if big { 12 } else { 8 }),
        (0, vec![3], 4, if big { 8 } else { 5 }),
        (1, vec![1, 1], 3, if big { 6 } else { 5 }),
        (1, vec![2, 1], 4, if big { 6 } else { 4 }),
        (2, vec![2], 4, if big { 6 } else { 4 }),
        (3, vec![2], 4, if big { 6 } else { 4 }),
        (4, vec![1, 1, 1], 4, if big { 6 } else { 4 }),
    ];
    let mut details = vec![];
    for (kind, caps, keys, depth) in menu {
        let (tname, owner) = KINDS[kind as usize];
        if owner != prop {
            continue;
        }
        let ops = ops_for(kind, keys, caps[0]);
        let caps2 = caps.clone();
        let eval = move |hist: &[ZOp]| -> EvalOut {
            let mut out = EvalOut { key: None, findings: vec![], nontrivial: false };
            let r = catch_unwind(AssertUnwindSafe(|| {
                let mut reference = build::<u8>(kind, &caps2);
                let mut unit = build::<()>(kind, &caps2);
                let mut large = build::<[u64; 16]>(kind, &caps2);
                let mut problem = None;
                for (i, op) in hist.iter().enumerate() {
                    let r0 = reference.apply(*op);
                    let o0 = reference.observe(keys);
                    for (name, other) in [("()", &mut unit), ("[u64; 16]", &mut large)] {
                        let r1 = other.apply(*op);
                        let o1 = other.observe(keys);
                        if problem.is_none() && (r0 != r1 || o0 != o1) {
                            problem = Some(format!(
                                "{} over {} values: after {:?}, step {} ({:?}) gives [{}] and then {{{}}}, but over u8 values [{}] and {{{}}}",
                                tname, name, &hist[..i], i, op, r1, o1, r0, o0
                            ));
                        }
                    }
                }
                (reference.merge_key(), problem)
            }));
            match r {
                Ok((key, problem)) => {
                    if let Some(p) = problem {
                        out.findings.push(Finding::new(owner, "behaviour_is_independent_of_the_value_type", tname.to_string(), p));
                    }
                    out.nontrivial = true;
                    // composite caches: the history is the state (their order is not observable without values)
                    out.key = Some(key.unwrap_or_else(|| format!("{:?}", hist).into_bytes()));
                }
                Err(_) => {
                    let _ = crate::panics::take_last(); // C05's business
                }
            }
            out
        };
        let res = bfs(&ops, if big { 2_000_000 } else { 300_000 }, depth, &eval);
        rep.states += res.states;
        rep.transitions += res.evals;
        rep.evaluations += res.evals * 3;
        rep.distinct_nontrivial += res.nontrivial.min(res.states);
        if !res.closed {
            rep.exhaustive = false;
        }
        details.push(json!({"cache": tname, "capacities": caps, "keys": keys, "alphabet": ops.len(), "depth": res.max_depth, "states_or_histories": res.states, "lock_step_executions": res.evals * 3, "closed": res.closed, "capped": res.capped}));
        for (f, h) in res.findings.into_iter().take(3) {
            rep.violations.push(Extra { finding: f, case: json!({"engine": "value-types", "cache": tname, "history": format!("{:?}", h)}), count: 1 });
        }
    }
    rep.capped = if rep.exhaustive { None } else { Some("depth-bounded: every operation sequence up to the stated depth".into()) };
    rep.detail = json!(details);
    rep
}
