//! Plain-data vocabulary shared by subjects, engine and oracles: operations, return values,
//! snapshots and configurations. Oracles only ever see these (never the generic caches).
use crate::hashers::{HKind, KHKind};
use serde::{Deserialize, Serialize};

/// (key tag, version) of a stored value. (255,255) = the memory did not hold a valid value.
pub type VV = (u8, u8);
/// key id and value
pub type Ent = (u8, VV);

#[derive(Clone, Copy, PartialEq, Eq, Debug, Hash, Serialize, Deserialize, PartialOrd, Ord)]
pub enum Kind {
    Raw,
    Slru,
    TwoQ,
    Arc,
    Wtlfu,
}

#[derive(Clone, Copy, PartialEq, Eq, Debug, Hash, Serialize, Deserialize, PartialOrd, Ord)]
pub enum KeyTy {
    U64,
    Tracked,
    /// drop-tracked keys with plain values / plain keys with drop-tracked values (drop glue of one kind only)
    TrackedKeys,
    TrackedVals,
}

/// Iterator families (C14) — also used to address a write through a mutable iterator.
#[derive(Clone, Copy, PartialEq, Eq, Debug, Hash, Serialize, Deserialize, PartialOrd, Ord)]
pub enum IterFam {
    Iter,
    IterLru,
    IterMut,
    IterLruMut,
    Keys,
    KeysLru,
    Values,
    ValuesLru,
    ValuesMut,
    ValuesLruMut,
    RefIntoIter,
    MutIntoIter,
}

#[derive(Clone, Copy, PartialEq, Eq, Debug, Hash, Serialize, Deserialize, PartialOrd, Ord)]
pub enum Op {
    // ---- Cache trait
    Put(u8, u8),
    Get(u8),
    GetMut(u8),
    /// get_mut then flip the version through the returned reference
    GetMutW(u8),
    Peek(u8),
    PeekMut(u8),
    PeekMutW(u8),
    Contains(u8),
    Remove(u8),
    Purge,
    Len,
    Cap,
    IsEmpty,
    DebugFmt,
    // ---- RawLRU
    RemoveLru,
    Resize(u8),
    GetLru,
    GetLruMut,
    GetLruMutW,
    GetMru,
    GetMruMut,
    GetMruMutW,
    PeekLru,
    PeekMru,
    PeekLruMut,
    PeekLruMutW,
    PeekMruMut,
    PeekMruMutW,
    PeekOrPut(u8, u8),
    PeekMutOrPut(u8, u8),
    /// peek_mut_or_put, flipping the version on a hit
    PeekMutOrPutW(u8, u8),
    ContainsOrPut(u8, u8),
    /// write (flip version) through the `n`-th item of a mutable iterator of list `list`
    IterW(u8, IterFam, u8),
    /// drain every iterator family of every list, from the front (observer)
    Iters,
    // ---- SegmentedCache
    PutProtected(u8, u8),
    RemoveLruProb,
    RemoveLruProt,
    /// all eight peek_{lru,mru}[_mut]_from_{probationary,protected} without writing, plus lens/caps
    SegPeeks,
    /// peek_lru_mut_from_probationary etc. with a write: (segment 0/1, end 0=lru/1=mru)
    SegPeekW(u8, u8),
    // ---- 2Q / ARC / W-TinyLFU
    /// per-list lens / caps / partition (observer)
    ListLens,
    // ---- any Clone-able subject
    /// replace the cache by its clone and continue on the clone
    CloneReplace,
    /// `other.clone_from(&cache)` onto another, fuller cache of a different capacity; continue on `other`
    CloneFromReplace,
    /// replace the cache by one built with a conversion (`collect()`, `From<Vec>`, `From<[_; N]>`, iterators with
    /// inexact size hints) from the item sequence the code stands for (`from_items_decode`)
    FromItems(u16),
}

/// `FromItems(code)`: conversion kind = code / 1024; the items are the base-4 digits of code % 1024, least
/// significant first, 0 = end, d = key d-1; the value version alternates with the position when code / 1024 >= 8 (configurations with two versions).
/// kinds: 0 `collect()` of a Vec; 1 `From<Vec>`; 2 `From<[_; N]>`; 3 `collect()` through `filter` (size hint (0, n));
/// 4 `collect()` of a `chain` of two halves; 5 `collect()` through `take_while` over an unbounded source (size hint (0, huge))
pub fn from_items_decode(code: u16) -> (u8, Vec<(u8, u8)>) {
    let kind = ((code / 1024) % 8) as u8;
    let alternate = code / 1024 >= 8;
    let mut d = code % 1024;
    let mut items = vec![];
    while d % 4 != 0 && items.len() < 5 {
        items.push(((d % 4 - 1) as u8, if alternate { (items.len() as u8) % 2 } else { 0 }));
        d /= 4;
    }
    (kind, items)
}

pub fn from_items_encode(kind: u8, keys: &[u8]) -> u16 {
    let mut d = 0u16;
    for k in keys.iter().rev() {
        d = d * 4 + (*k as u16 + 1);
    }
    kind as u16 * 1024 + d
}

impl Op {
    pub fn is_put_like(&self) -> bool {
        matches!(
            self,
            Op::Put(..) | Op::PutProtected(..) | Op::PeekOrPut(..) | Op::PeekMutOrPut(..) | Op::PeekMutOrPutW(..) | Op::ContainsOrPut(..)
        )
    }
    pub fn key(&self) -> Option<u8> {
        match *self {
            Op::Put(k, _)
            | Op::Get(k)
            | Op::GetMut(k)
            | Op::GetMutW(k)
            | Op::Peek(k)
            | Op::PeekMut(k)
            | Op::PeekMutW(k)
            | Op::Contains(k)
            | Op::Remove(k)
            | Op::PeekOrPut(k, _)
            | Op::PeekMutOrPut(k, _)
            | Op::PeekMutOrPutW(k, _)
            | Op::ContainsOrPut(k, _)
            | Op::PutProtected(k, _) => Some(k),
            _ => None,
        }
    }
}

#[derive(Clone, PartialEq, Eq, Debug, Hash, Serialize, Deserialize)]
pub enum PR {
    Put,
    Update(VV),
    Evicted(u8, VV),
    EvictedAndUpdate(Ent, VV),
}

#[derive(Clone, PartialEq, Eq, Debug, Hash, Serialize, Deserialize)]
pub enum Ret {
    Unit,
    Bool(bool),
    Num(u64),
    V(Option<VV>),
    KV(Option<Ent>),
    Put(PR),
    /// peek_or_put / peek_mut_or_put
    OrPut(Option<VV>, Option<PR>),
    /// contains_or_put
    BoolOrPut(bool, Option<PR>),
    Str(String),
    /// a bundle of observer results
    Many(Vec<Ret>),
    /// list of entries (iterators)
    Ents(Vec<Ent>),
    /// the call panicked: message @ location
    Panic(String),
    /// the op is not part of this subject's API
    NotApplicable,
}

/// Estimator part of a W-TinyLFU snapshot (from the hook).
#[derive(Clone, PartialEq, Eq, Debug, Hash, Serialize, Deserialize, Default)]
pub struct EstSnap {
    pub rows: Vec<Vec<u8>>,
    pub bitset: Vec<u64>,
    pub w: u64,
    pub samples: u64,
    pub seeds: Option<[u64; 4]>,
}

/// Abstract state of a cache (DESIGN §2.3).
///
/// lists (MRU first):  Raw: [list]; Slru: [probationary, protected];
/// TwoQ: [recent, frequent, ghost]; Arc: [T1, T2, B1, B2]; Wtlfu: [window, probationary, protected]
/// scalars:            Raw: [cap]; Slru: [cap_pb, cap_pt]; TwoQ: [size, quota(hook)];
///                     Arc: [size, p]; Wtlfu: [cap_w, cap_pb, cap_pt]
#[derive(Clone, PartialEq, Eq, Debug, Hash, Serialize, Deserialize, Default)]
pub struct Snap {
    pub lists: Vec<Vec<Ent>>,
    pub scalars: Vec<u64>,
    /// capacities of the inner lists as they really are (hooks): hidden state that decides future
    /// evictions, so two objects that differ here are different states (no clause judges the values)
    #[serde(default)]
    pub inner: Vec<u64>,
    /// 0 when every list passes the structural audit; otherwise a digest of the audit's (address-free)
    /// complaints. An object whose chain is mis-linked can look like a legitimate state from the front;
    /// with the digest in the key it is a state of its own and is explored further instead of merged.
    #[serde(default)]
    pub shape: u64,
    pub est: Option<EstSnap>,
    /// serial numbers of the tracked keys/values held (not part of the abstract state)
    #[serde(skip)]
    pub serials: Vec<u32>,
    /// public size accessors as reported by the cache: [len, cap, is_empty as 0/1]
    pub reported: [u64; 3],
}

impl Snap {
    /// canonical bytes: everything except serial numbers
    pub fn canon(&self) -> Vec<u8> {
        let mut b = Vec::with_capacity(64);
        for l in &self.lists {
            b.push(l.len() as u8);
            for (k, (vk, vv)) in l {
                b.push(*k);
                b.push(*vk);
                b.push(*vv);
            }
        }
        b.push(0xfe);
        for s in &self.scalars {
            b.extend_from_slice(&(*s as u32).to_le_bytes());
        }
        for s in &self.reported {
            b.extend_from_slice(&(*s as u32).to_le_bytes());
        }
        for s in &self.inner {
            b.extend_from_slice(&(*s as u32).to_le_bytes());
        }
        if self.shape != 0 {
            b.push(0xfc);
            b.extend_from_slice(&self.shape.to_le_bytes());
        }
        if let Some(e) = &self.est {
            b.push(0xfd);
            for r in &e.rows {
                for pair in r.chunks(2) {
                    b.push(pair[0] | (pair.get(1).copied().unwrap_or(0) << 4));
                }
            }
            for w in &e.bitset {
                b.extend_from_slice(&w.to_le_bytes());
            }
            b.extend_from_slice(&(e.w as u32).to_le_bytes());
        }
        b
    }
    pub fn resident(&self, kind: Kind) -> Vec<Ent> {
        let idx: &[usize] = match kind {
            Kind::Raw => &[0],
            Kind::Slru => &[0, 1],
            Kind::TwoQ => &[0, 1],
            Kind::Arc => &[0, 1],
            Kind::Wtlfu => &[0, 1, 2],
        };
        idx.iter().flat_map(|i| self.lists[*i].iter().copied()).collect()
    }
    pub fn ghosts(&self, kind: Kind) -> Vec<Ent> {
        let idx: &[usize] = match kind {
            Kind::TwoQ => &[2],
            Kind::Arc => &[2, 3],
            _ => &[],
        };
        idx.iter().flat_map(|i| self.lists[*i].iter().copied()).collect()
    }
    pub fn find(&self, key: u8) -> Option<(usize, usize, VV)> {
        for (li, l) in self.lists.iter().enumerate() {
            for (pi, (k, v)) in l.iter().enumerate() {
                if *k == key {
                    return Some((li, pi, *v));
                }
            }
        }
        None
    }
}

pub const LIST_NAMES: [&[&str]; 5] = [
    &["list"],
    &["probationary", "protected"],
    &["recent", "frequent", "ghost"],
    &["recent(T1)", "frequent(T2)", "recent_evict(B1)", "frequent_evict(B2)"],
    &["window", "probationary", "protected"],
];

pub fn list_names(kind: Kind) -> &'static [&'static str] {
    LIST_NAMES[kind as usize]
}

/// One configuration of one subject = one closure.
#[derive(Clone, PartialEq, Debug, Serialize, Deserialize)]
pub struct Cfg {
    pub kind: Kind,
    /// Raw: [cap]; Slru: [pb, pt]; TwoQ: [size]; Arc: [size]; Wtlfu: [window, protected, probationary]
    pub caps: Vec<usize>,
    /// TwoQ: (recent ratio, ghost ratio)
    pub ratios: (f64, f64),
    /// Wtlfu: sample size, key hasher, sketch seeds (std build)
    pub samples: usize,
    pub kh: KHKind,
    pub seeds: [u64; 4],
    /// number of keys in the alphabet (ids 0..keys)
    pub keys: u8,
    /// value versions per key (1 or 2)
    pub versions: u8,
    pub hasher: HKind,
    /// a different hasher kind for each inner list (C17 "mixed" leg)
    pub mixed_hashers: bool,
    pub key_ty: KeyTy,
    /// Raw: resize targets offered as operations
    pub resize: Vec<u8>,
    /// include the clone-and-continue operation
    pub with_clone: bool,
    /// Raw: build with an eviction callback (C15) through this constructor: 0 none, 1 with_on_evict_cb (RandomState), 2 with_on_evict_cb_and_hasher
    pub callback: u8,
    /// use the reduced operation set (policy-relevant mutators only)
    pub lean_ops: bool,
    /// history applied before the exploration starts (the root state is the state it reaches): "start
    /// from non-initial states" — e.g. a pre-filled cache of a capacity far too large for a closure
    #[serde(default)]
    pub prefill: Vec<Op>,
    /// relative alphabet: operations address keys by their position (ends of each list, a key new to
    /// the cache) instead of by name, resolved against the snapshot of each state
    #[serde(default)]
    pub relative: bool,
    /// which builder path constructs the cache: 0 = sizes first, hashers last; 1 = hashers first
    /// (from `Default`), sizes/ratios last — so that every setter is exercised after every other
    #[serde(default)]
    pub builder_path: u8,
    /// > 0: the driver allocates and frees unrelated heap blocks before construction and between
    /// operations (pattern selected by the value), so that every node lands at a different address
    /// than in the undisturbed run (C17: "where entries happen to be allocated")
    #[serde(default)]
    pub addr_noise: u8,
    /// W-TinyLFU only: leave get/get_mut out of the alphabet, so that the estimator never records anything
    /// and every key's estimate is 0 under every KeyHasher ("the same estimator verdicts", C17)
    #[serde(default)]
    pub no_estimator_ops: bool,
    /// RawLRU without callback: conversions (`FromItems`) are operations of the alphabet, so that the states they
    /// build - duplicates in the source included - are states of the closure like any other
    #[serde(default)]
    pub conversions: bool,
}

impl Cfg {
    pub fn base(kind: Kind, caps: &[usize], keys: u8) -> Cfg {
        Cfg {
            kind,
            caps: caps.to_vec(),
            ratios: (0.25, 0.5),
            samples: 3,
            kh: KHKind::Identity,
            seeds: [1, 2, 3, 4],
            keys,
            versions: 1,
            hasher: HKind::SipA,
            mixed_hashers: false,
            key_ty: KeyTy::U64,
            resize: vec![],
            with_clone: false,
            callback: 0,
            lean_ops: false,
            prefill: vec![],
            relative: false,
            builder_path: 0,
            addr_noise: 0,
            no_estimator_ops: false,
            conversions: false,
        }
    }
    pub fn label(&self) -> String {
        let mut s = format!("{:?}{:?}", self.kind, self.caps);
        if self.kind == Kind::TwoQ {
            s += &format!("/rr={},gr={}", self.ratios.0, self.ratios.1);
        }
        if self.kind == Kind::Wtlfu {
            s += &format!("/samples={},kh={:?},seeds={:?}", self.samples, self.kh, self.seeds);
        }
        s += &format!("/keys={},versions={},hasher={:?}{},key={:?}", self.keys, self.versions, self.hasher, if self.mixed_hashers { "(mixed)" } else { "" }, self.key_ty);
        if !self.resize.is_empty() {
            s += &format!("/resize={:?}", self.resize);
        }
        if self.with_clone {
            s += "/clone";
        }
        if self.callback != 0 {
            s += &format!("/cb={}", self.callback);
        }
        if self.lean_ops {
            s += "/lean";
        }
        if !self.prefill.is_empty() {
            s += &format!("/prefill={}ops", self.prefill.len());
        }
        if self.relative {
            s += "/relative-alphabet";
        }
        if self.builder_path != 0 {
            s += &format!("/builder_path={}", self.builder_path);
        }
        if self.addr_noise != 0 {
            s += &format!("/addr_noise={}", self.addr_noise);
        }
        if self.no_estimator_ops {
            s += "/no-get";
        }
        if self.conversions {
            s += "/conversions";
        }
        s
    }
}

/// Mutating operations offered in every state of the closure of `cfg`.
pub fn mutators(cfg: &Cfg) -> Vec<Op> {
    let mut v = Vec::new();
    let two = cfg.versions >= 2;
    for k in 0..cfg.keys {
        for ver in 0..cfg.versions {
            v.push(Op::Put(k, ver));
        }
    }
    for k in 0..cfg.keys {
        if !cfg.no_estimator_ops {
            v.push(Op::Get(k));
            if !cfg.lean_ops {
                v.push(Op::GetMut(k));
            }
        }
        if two {
            if !cfg.no_estimator_ops {
                v.push(Op::GetMutW(k));
            }
            v.push(Op::PeekMutW(k));
        }
        v.push(Op::Remove(k));
    }
    v.push(Op::Purge);
    match cfg.kind {
        Kind::Raw => {
            v.push(Op::RemoveLru);
            for n in &cfg.resize {
                v.push(Op::Resize(*n));
            }
            if !cfg.lean_ops {
                v.push(Op::GetLru);
                v.push(Op::GetLruMut);
                for k in 0..cfg.keys {
                    for ver in 0..cfg.versions {
                        v.push(Op::PeekOrPut(k, ver));
                        v.push(Op::PeekMutOrPut(k, ver));
                        v.push(Op::ContainsOrPut(k, ver));
                        if two {
                            v.push(Op::PeekMutOrPutW(k, ver));
                        }
                    }
                }
                if two {
                    v.push(Op::GetLruMutW);
                    v.push(Op::GetMruMutW);
                    v.push(Op::PeekLruMutW);
                    v.push(Op::PeekMruMutW);
                }
            }
        }
        Kind::Slru => {
            for k in 0..cfg.keys {
                for ver in 0..cfg.versions {
                    v.push(Op::PutProtected(k, ver));
                }
            }
            v.push(Op::RemoveLruProb);
            v.push(Op::RemoveLruProt);
            if two && !cfg.lean_ops {
                for seg in 0..2 {
                    for end in 0..2 {
                        v.push(Op::SegPeekW(seg, end));
                    }
                }
            }
        }
        Kind::TwoQ | Kind::Arc | Kind::Wtlfu => {}
    }
    // writes through the first item of every mutable iterator family of every list (the accessors are
    // hand-copied per list: a write must land in the list the accessor names)
    if two && !cfg.lean_ops && matches!(cfg.kind, Kind::Raw | Kind::TwoQ | Kind::Arc) {
        let nl = match cfg.kind {
            Kind::Raw => 1,
            Kind::TwoQ => 3,
            _ => 4,
        };
        for li in 0..nl {
            for fam in [IterFam::IterMut, IterFam::IterLruMut, IterFam::ValuesMut, IterFam::ValuesLruMut] {
                v.push(Op::IterW(li, fam, 0));
            }
            // writes addressed by the yielded key, walking from the back and from the front
            for fam in [IterFam::IterMut, IterFam::IterLruMut] {
                v.push(Op::IterW(li, fam, 100));
                v.push(Op::IterW(li, fam, 201));
            }
        }
        if cfg.kind == Kind::Raw {
            v.push(Op::IterW(0, IterFam::MutIntoIter, 0));
        }
    }
    if cfg.with_clone && matches!(cfg.kind, Kind::Raw | Kind::Slru | Kind::Wtlfu) {
        v.push(Op::CloneReplace);
        if cfg.callback == 0 {
            v.push(Op::CloneFromReplace);
        }
    }
    if cfg.conversions && cfg.kind == Kind::Raw && cfg.callback == 0 {
        // every item sequence of length <= 3 over two keys, a few longer ones with repeats, each through one of
        // the conversion kinds (rotating), plus the unbounded-source kind for three lengths
        let mut seqs: Vec<Vec<u8>> = vec![vec![]];
        for a in 0..2u8 {
            seqs.push(vec![a]);
            for b in 0..2u8 {
                seqs.push(vec![a, b]);
                for c in 0..2u8 {
                    seqs.push(vec![a, b, c]);
                }
            }
        }
        seqs.extend([vec![0, 1, 2, 0], vec![2, 2, 2, 2], vec![1, 0, 1, 2, 1], vec![0, 1, 2], vec![0, 1, 2, 1, 0]]);
        let alt: u8 = if cfg.versions >= 2 { 8 } else { 0 };
        for (i, s) in seqs.iter().enumerate() {
            v.push(Op::FromItems(from_items_encode((i % 5) as u8 + alt, s)));
            if s.len() >= 2 && s.iter().collect::<std::collections::BTreeSet<_>>().len() < s.len() {
                // sources that repeat a key go through every kind
                for kind in 0..5u8 {
                    if kind as usize != i % 5 {
                        v.push(Op::FromItems(from_items_encode(kind + alt, s)));
                    }
                }
            }
        }
        for n in [0u8, 1, 3] {
            let s: Vec<u8> = (0..n).collect();
            v.push(Op::FromItems(from_items_encode(5, &s)));
        }
    }
    v
}

/// which entry `IterW(list, fam, n)` addresses in a snapshot: (list index, position)
pub fn iterw_target(snap: &Snap, list: u8, fam: IterFam, n: u8) -> Option<(usize, usize)> {
    let l = snap.lists.get(list as usize)?;
    let n = n as usize;
    if n >= 100 {
        // addressed by key (see iters::by_key)
        if !matches!(fam, IterFam::IterMut | IterFam::IterLruMut | IterFam::MutIntoIter) {
            return None;
        }
        return l.iter().position(|e| e.0 as usize == n % 100).map(|p| (list as usize, p));
    }
    if n >= l.len() {
        return None;
    }
    match fam {
        IterFam::IterMut | IterFam::ValuesMut | IterFam::MutIntoIter => Some((list as usize, n)),
        IterFam::IterLruMut | IterFam::ValuesLruMut => Some((list as usize, l.len() - 1 - n)),
        _ => None,
    }
}

/// Read-only operations, run in every state (C13) — they are not transitions.
pub fn observers(cfg: &Cfg) -> Vec<Op> {
    let mut v = vec![Op::Len, Op::Cap, Op::IsEmpty, Op::DebugFmt];
    for k in 0..cfg.keys {
        v.push(Op::Peek(k));
        v.push(Op::PeekMut(k));
        v.push(Op::Contains(k));
    }
    match cfg.kind {
        Kind::Raw => {
            v.extend([Op::PeekLru, Op::PeekMru, Op::PeekLruMut, Op::PeekMruMut, Op::GetMru, Op::GetMruMut, Op::Iters]);
        }
        Kind::Slru => v.push(Op::SegPeeks),
        Kind::TwoQ | Kind::Arc => {
            v.push(Op::ListLens);
            v.push(Op::Iters);
        }
        Kind::Wtlfu => v.push(Op::ListLens),
    }
    v
}

/// Relative alphabet resolved against a snapshot: concrete operations on the keys at the ends of
/// every list and on a key that is new to the cache.
pub fn relative_ops(cfg: &Cfg, snap: &Snap) -> Vec<Op> {
    let mut v: Vec<Op> = vec![];
    let retained: Vec<u8> = snap.lists.iter().flatten().map(|e| e.0).collect();
    let fresh = (0u8..96).find(|k| !retained.contains(k));
    if let Some(f) = fresh {
        v.push(Op::Put(f, 0));
        if cfg.kind == Kind::Slru {
            v.push(Op::PutProtected(f, 0));
        }
    }
    let resident: &[usize] = match cfg.kind {
        Kind::Raw => &[0],
        Kind::Slru | Kind::TwoQ | Kind::Arc => &[0, 1],
        Kind::Wtlfu => &[0, 1, 2],
    };
    for (li, l) in snap.lists.iter().enumerate() {
        if l.is_empty() {
            continue;
        }
        let ends = [l[l.len() - 1].0, l[0].0];
        for (ei, k) in ends.iter().enumerate() {
            if ei == 1 && l.len() == 1 {
                continue;
            }
            v.push(Op::Put(*k, 0));
            if resident.contains(&li) {
                v.push(Op::Get(*k));
                if ei == 0 {
                    v.push(Op::Remove(*k));
                }
                if cfg.kind == Kind::Slru && li == 0 && ei == 0 {
                    v.push(Op::PutProtected(*k, 0));
                }
            }
        }
    }
    if cfg.kind == Kind::Raw {
        v.push(Op::RemoveLru);
        v.push(Op::GetLru);
    }
    if cfg.kind == Kind::Wtlfu {
        // a miss still records an access
        if let Some(f) = fresh {
            v.push(Op::Get(f));
        }
    }
    v.sort();
    v.dedup();
    v
}
